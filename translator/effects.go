package main

// Effects.v: a conservative, intraprocedural write-footprint summary of every
// function of the package, plus call edges with argument binding.  Facts only:
// the closure over the call graph is computed in Coq.
//
// The analysis is a flow-insensitive, field-insensitive unification points-to
// analysis (Steensgaard) per top-level function; closures share the node space
// of their encloser.  A region is a set of memory cells; it has a label
// (fresh | param v | global g | unknown) and one successor region `pts` = what
// the references stored in it point to.  Variables own a region for their
// slot (fresh); what a reference-like parameter refers to is a self-pointing
// region labelled param; globals and unknown memory likewise.  Assignments,
// stores, appends, composite literals, channel operations and calls unify
// regions.  A store is classified by the label of the region containing the
// written cell; an argument by the join of the labels of everything reachable
// from it.  In-package callees are summarised (what the result refers to, and
// what they link into the memory of their arguments) by a fixpoint started
// from the optimistic summary; external callees by the tables below.
//
// One flow-sensitive refinement (DESIGN 4.1): a reference field r.f of a
// parameter r that is unconditionally re-assigned by a top-level statement of
// the function body gets its own region from that statement on, provided r is
// used in the function only to select fields (no alias, no escape, no capture),
// the address of the field is not taken and the function has no goto/labels.
//
// Anything not understood is "unknown".

import (
	"go/ast"
	"go/token"
	"go/types"
	"sort"
	"strconv"
	"strings"
)

// ---------------------------------------------------------------- kinds

func kindOf(t types.Type) string { return kindOfRec(t, map[types.Type]bool{}) }

func kindOfRec(t types.Type, seen map[types.Type]bool) string {
	if t == nil {
		return "interface"
	}
	if seen[t] {
		return "value"
	}
	seen[t] = true
	defer delete(seen, t)
	switch u := t.Underlying().(type) {
	case *types.Basic:
		if u.Kind() == types.UnsafePointer {
			return "pointer"
		}
		if u.Info()&types.IsString != 0 {
			return "string"
		}
		if u.Kind() == types.UntypedNil {
			return "pointer"
		}
		return "value"
	case *types.Pointer:
		return "pointer"
	case *types.Slice:
		return "slice"
	case *types.Map:
		return "map"
	case *types.Chan:
		return "chan"
	case *types.Signature:
		return "func"
	case *types.Interface:
		return "interface"
	case *types.Struct:
		for i := 0; i < u.NumFields(); i++ {
			if isRefKind(kindOfRec(u.Field(i).Type(), seen)) {
				return "struct-with-refs"
			}
		}
		return "value"
	case *types.Array:
		if isRefKind(kindOfRec(u.Elem(), seen)) {
			return "struct-with-refs"
		}
		return "value"
	case *types.Tuple:
		for i := 0; i < u.Len(); i++ {
			if isRefKind(kindOfRec(u.At(i).Type(), seen)) {
				return "struct-with-refs"
			}
		}
		return "value"
	}
	return "interface" // type parameters and anything unforeseen
}

func isRefKind(k string) bool { return k != "value" && k != "string" }

// refFields lists the reference-like direct fields of a struct type.
func refFields(t types.Type) []string {
	var out []string
	if t == nil {
		return out
	}
	if pt, ok := t.Underlying().(*types.Pointer); ok {
		t = pt.Elem()
	}
	st, ok := t.Underlying().(*types.Struct)
	if !ok {
		return out
	}
	for i := 0; i < st.NumFields(); i++ {
		if isRefKind(kindOf(st.Field(i).Type())) {
			out = append(out, st.Field(i).Name())
		}
	}
	return out
}

// ---------------------------------------------------------------- labels and regions

const (
	lFresh = iota
	lParam
	lGlobal
	lUnknown
)

type elabel struct {
	k    int
	v    *types.Var // lParam
	name string     // lGlobal
}

func joinLabel(a, b elabel) elabel {
	if a.k == lFresh {
		return b
	}
	if b.k == lFresh {
		return a
	}
	if a == b {
		return a
	}
	return elabel{k: lUnknown}
}

type enode struct {
	parent *enode
	label  elabel
	vars   []*types.Var // variables whose slot lies in this region (representative only)
	pts    *enode       // region the references stored in this region point to (nil: none yet)
}

func (n *enode) find() *enode {
	for n.parent != nil {
		if n.parent.parent != nil {
			n.parent = n.parent.parent
		}
		n = n.parent
	}
	return n
}

// eunion merges two regions and, recursively, what they point to (Steensgaard).
func eunion(a, b *enode) *enode {
	a, b = a.find(), b.find()
	if a == b {
		return a
	}
	b.parent = a
	a.label = joinLabel(a.label, b.label)
	a.vars = append(a.vars, b.vars...)
	b.vars = nil
	pa, pb := a.pts, b.pts
	b.pts = nil
	if pa == nil {
		a.pts = pb
	} else if pb != nil {
		eunion(pa, pb)
	}
	return a.find()
}

// ptsOf is the region pointed to from region n (created empty and fresh on demand).
func ptsOf(n *enode) *enode {
	r := n.find()
	if r.pts == nil {
		r.pts = &enode{}
	}
	return r.pts.find()
}

// collapse merges a region with everything reachable from it (the result points to itself).
func ecollapse(n *enode) *enode {
	r := n.find()
	for i := 0; i < 1000; i++ {
		if r.pts == nil {
			r.pts = r
			return r
		}
		q := r.pts.find()
		if q == r {
			return r
		}
		r = eunion(r, q)
	}
	return r
}

// deepLabel joins the labels of a region and of everything reachable from it.
func deepLabel(n *enode) elabel {
	l := labFresh
	seen := map[*enode]bool{}
	for r := n.find(); r != nil && !seen[r]; {
		seen[r] = true
		l = joinLabel(l, r.label)
		if r.pts == nil {
			break
		}
		r = r.pts.find()
	}
	return l
}

func (n *enode) taint(l elabel) {
	r := n.find()
	r.label = joinLabel(r.label, l)
}

// constNode is a region of non-private memory: it points to itself.
func constNode(l elabel) *enode {
	n := &enode{label: l}
	n.pts = n
	return n
}

// ---------------------------------------------------------------- functions

type effParam struct {
	name string
	kind string
	v    *types.Var
}

type effFn struct {
	name     string
	file     string
	line     int
	exported bool
	recv     string
	params   []effParam
	sig      *types.Signature
	decl     *ast.FuncDecl
	lit      *ast.FuncLit
	encl     *effFn // closures: directly enclosing function
	top      *effFn // top-level unit
	pos, end token.Pos
	closures []*effFn // top-level unit: all nested closures, source order
	isInit   bool
	// summaries (declared functions)
	sumRet   relLabel // class of the memory a returned reference points to
	sumDeep  relLabel // join of the classes of everything reachable beyond that
	sumTaint []relLabel
	retFresh bool
	retNode  *enode
	captured []*types.Var
}

// relLabel is a label relative to a function's own parameter list.
type relLabel struct {
	k    int
	idx  int
	name string
}

func (f *effFn) paramIndex(v *types.Var) int {
	for i, p := range f.params {
		if p.v == v && v != nil {
			return i
		}
	}
	return -1
}

type fieldKey struct {
	base  *types.Var
	field *types.Var
}

type effStore struct {
	fn, file     string
	line         int
	target, root string
	class        string
	direct       bool
	directK      int
	col          int
}

type effCall struct {
	fn, file string
	line     int
	col      int
	callee   string
	args     []string
}

type effAn struct {
	p              *Pkg
	units          []*effFn // top-level units in source order (<init> last)
	all            []*effFn // every function incl. closures
	byFunc         map[*types.Func]*effFn
	byLit          map[*ast.FuncLit]*effFn
	globalAssigned map[*types.Var]bool

	// per-unit state
	unit     *effFn
	nodes    map[*types.Var]*enode
	gnodes   map[string]*enode
	fnodes   map[fieldKey]*enode
	override map[fieldKey][2]token.Pos // field override: [0] start of the dominating assignment (writes), [1] its end (reads)
	emit     bool

	stores     []effStore
	calls      []effCall
	goStmts    [][3]string
	copyShares []string
	copyReach  []string
	closInfo   []string
}

func (a *effAn) isGlobalVar(v *types.Var) bool {
	if v == nil || v.IsField() {
		return false
	}
	if v.Pkg() == nil {
		return false
	}
	return v.Parent() == v.Pkg().Scope()
}

func globalName(p *Pkg, v *types.Var) string {
	if v.Pkg() == p.pkg {
		return v.Name()
	}
	return v.Pkg().Path() + "." + v.Name()
}

// owner is the innermost function of the current unit that declares v.
func (a *effAn) owner(v *types.Var) *effFn {
	best := a.unit
	for _, c := range a.unit.closures {
		if c.pos <= v.Pos() && v.Pos() < c.end {
			if best == a.unit || (best.pos <= c.pos && c.end <= best.end) {
				best = c
			}
		}
	}
	return best
}

func (f *effFn) inside(g *effFn) bool { // f is g or nested in g
	for x := f; x != nil; x = x.encl {
		if x == g {
			return true
		}
	}
	return false
}

func (a *effAn) mkParams(f *effFn, sig *types.Signature) {
	f.sig = sig
	if sig == nil {
		return
	}
	if r := sig.Recv(); r != nil {
		f.recv = "value"
		if _, ok := r.Type().(*types.Pointer); ok {
			f.recv = "pointer"
		}
		f.params = append(f.params, effParam{r.Name(), kindOf(r.Type()), r})
	}
	for i := 0; i < sig.Params().Len(); i++ {
		v := sig.Params().At(i)
		f.params = append(f.params, effParam{v.Name(), kindOf(v.Type()), v})
	}
}

func (a *effAn) collect() {
	p := a.p
	a.byFunc = map[*types.Func]*effFn{}
	a.byLit = map[*ast.FuncLit]*effFn{}
	initFn := &effFn{name: "<init>", isInit: true}
	initFn.top = initFn
	addClosures := func(top *effFn, root ast.Node) {
		var stack []*effFn
		var visit func(n ast.Node) bool
		cur := func() *effFn {
			if len(stack) == 0 {
				return top
			}
			return stack[len(stack)-1]
		}
		visit = func(n ast.Node) bool {
			lit, ok := n.(*ast.FuncLit)
			if !ok {
				return true
			}
			c := &effFn{lit: lit, encl: cur(), top: top, pos: lit.Pos(), end: lit.End(),
				file: p.fileName(lit.Pos()), line: p.line(lit.Pos())}
			top.closures = append(top.closures, c)
			c.name = top.name + "$" + strconv.Itoa(len(top.closures))
			sig, _ := p.info.Types[lit].Type.(*types.Signature)
			a.mkParams(c, sig)
			c.recv = ""
			a.byLit[lit] = c
			stack = append(stack, c)
			ast.Inspect(lit.Body, visit)
			stack = stack[:len(stack)-1]
			return false
		}
		ast.Inspect(root, visit)
	}
	for _, f := range p.files {
		for _, d := range f.Decls {
			switch x := d.(type) {
			case *ast.FuncDecl:
				fn := &effFn{name: funcName(x), decl: x, pos: x.Pos(), end: x.End(),
					file: p.name[f], line: p.line(x.Pos())}
				fn.top = fn
				obj, _ := p.info.Defs[x.Name].(*types.Func)
				var sig *types.Signature
				if obj != nil {
					sig, _ = obj.Type().(*types.Signature)
					a.byFunc[obj] = fn
				}
				a.mkParams(fn, sig)
				fn.exported = x.Name.IsExported()
				if x.Recv != nil && len(x.Recv.List) > 0 {
					fn.exported = fn.exported && ast.IsExported(recvBase(x.Recv.List[0].Type))
				}
				a.units = append(a.units, fn)
				if x.Body != nil {
					addClosures(fn, x.Body)
				}
			case *ast.GenDecl:
				if x.Tok != token.VAR {
					continue
				}
				for _, s := range x.Specs {
					vs := s.(*ast.ValueSpec)
					for _, v := range vs.Values {
						if initFn.file == "" {
							initFn.file, initFn.line = p.name[f], p.line(vs.Pos())
						}
						addClosures(initFn, v)
					}
				}
			}
		}
	}
	a.units = append(a.units, initFn)
	for _, u := range a.units {
		a.all = append(a.all, u)
		a.all = append(a.all, u.closures...)
	}
	for _, f := range a.all {
		f.sumRet = relLabel{k: lFresh}
		f.sumDeep = relLabel{k: lFresh}
		f.sumTaint = make([]relLabel, len(f.params))
		f.retFresh = true
	}
}

// initValues lists the package-level initialiser expressions.
func (a *effAn) initValues() []ast.Expr {
	var out []ast.Expr
	for _, f := range a.p.files {
		for _, d := range f.Decls {
			if gd, ok := d.(*ast.GenDecl); ok && gd.Tok == token.VAR {
				for _, s := range gd.Specs {
					out = append(out, s.(*ast.ValueSpec).Values...)
				}
			}
		}
	}
	return out
}

// ---------------------------------------------------------------- external tables

const golangSet = "github.com/deckarep/golang-set"

// extName is "ext:<path>.<Name>" or "ext:<path>.(<Type>).<Method>" ("(*Type)" for pointer receivers).
func extName(fn *types.Func) string {
	path := "builtin"
	if fn.Pkg() != nil {
		path = fn.Pkg().Path()
	}
	sig, _ := fn.Type().(*types.Signature)
	if sig != nil && sig.Recv() != nil {
		t := sig.Recv().Type()
		star := ""
		if pt, ok := t.(*types.Pointer); ok {
			t, star = pt.Elem(), "*"
		}
		tn := "?"
		if n, ok := t.(*types.Named); ok {
			tn = n.Obj().Name()
			if n.Obj().Pkg() != nil {
				path = n.Obj().Pkg().Path()
			}
		}
		return "ext:" + path + ".(" + star + tn + ")." + fn.Name()
	}
	return "ext:" + path + "." + fn.Name()
}

// read-only methods of pointer-receiver types in math/big
var bigReadOnly = map[string]bool{
	"Cmp": true, "CmpAbs": true, "Sign": true, "String": true, "Text": true, "Int64": true, "Uint64": true,
	"IsInt64": true, "IsUint64": true, "BitLen": true, "TrailingZeroBits": true, "Bit": true, "Bytes": true,
	"Bits": true, "Float64": true, "Float32": true, "ProbablyPrime": true, "Append": true, "Format": true,
	"MarshalText": true, "MarshalJSON": true, "GobEncode": true, "IsInt": true, "IsInf": true, "MinPrec": true,
	"Prec": true, "Mode": true, "Acc": true, "Signbit": true, "MantExp": true, "Int": true, "Rat": true,
	"Num": true, "Denom": true, "FloatString": true, "FillBytes": true,
}

// extArgWrites: arguments (1-based positions, ext numbering) whose referenced memory the callee writes.
var extArgWrites = map[string][]int{
	"ext:sort.Strings": {1}, "ext:sort.Ints": {1}, "ext:sort.Float64s": {1}, "ext:sort.Sort": {1},
	"ext:sort.Stable": {1}, "ext:sort.Slice": {1}, "ext:sort.SliceStable": {1},
	"ext:crypto/rand.Read": {1}, "ext:io.ReadFull": {2}, "ext:io.ReadAtLeast": {2},
	"ext:math/big.(*Float).MantExp": {1}, "ext:math/big.(*Float).Int": {1}, "ext:math/big.(*Float).Rat": {1},
	"ext:math/big.(*Int).DivMod": {3}, "ext:math/big.(*Int).QuoRem": {3}, "ext:math/big.(*Int).FillBytes": {1},
	"ext:encoding/binary.(bigEndian).PutUint16": {1}, "ext:encoding/binary.(bigEndian).PutUint32": {1},
	"ext:encoding/binary.(bigEndian).PutUint64": {1}, "ext:encoding/binary.(littleEndian).PutUint16": {1},
	"ext:encoding/binary.(littleEndian).PutUint32": {1}, "ext:encoding/binary.(littleEndian).PutUint64": {1},
	"ext:unicode/utf8.EncodeRune": {1}, "ext:slices.Sort": {1}, "ext:slices.SortFunc": {1}, "ext:slices.Reverse": {1},
}

// extFresh: external functions returning freshly allocated memory.
var extFresh = map[string]bool{
	"ext:strings.Split": true, "ext:strings.SplitN": true, "ext:strings.Fields": true, "ext:strings.Join": true,
	"ext:strings.Title": true, "ext:strings.Replace": true, "ext:strings.ReplaceAll": true,
	"ext:fmt.Sprintf": true, "ext:fmt.Errorf": true, "ext:fmt.Sprint": true, "ext:fmt.Sprintln": true,
	"ext:errors.New":               true,
	"ext:" + golangSet + ".NewSet": true, "ext:" + golangSet + ".NewSetFromSlice": true,
	"ext:" + golangSet + ".NewSetWith": true, "ext:" + golangSet + ".NewThreadUnsafeSet": true,
	"ext:" + golangSet + ".(Set).Union": true, "ext:" + golangSet + ".(Set).Difference": true,
	"ext:" + golangSet + ".(Set).Intersect": true, "ext:" + golangSet + ".(Set).SymmetricDifference": true,
	"ext:" + golangSet + ".(Set).Clone": true, "ext:" + golangSet + ".(Set).PowerSet": true,
	"ext:math/big.NewInt": true, "ext:math/big.NewFloat": true, "ext:math/big.NewRat": true,
}

var setMutators = map[string]bool{"Add": true, "Remove": true, "Clear": true, "Pop": true}

type extInfo struct {
	name          string
	recvMutated   bool  // the call writes the memory its receiver refers to
	retRecv       bool  // the result is the receiver
	argWrites     []int // ext-numbered arguments written
	fresh         bool  // result is fresh memory
	trustedNoLink bool  // callee does not store references into its arguments' memory (std lib, golang-set)
}

func isStdPath(path string) bool {
	first := path
	if i := strings.Index(path, "/"); i >= 0 {
		first = path[:i]
	}
	return !strings.Contains(first, ".")
}

func classifyExt(fn *types.Func) extInfo {
	ei := extInfo{name: extName(fn)}
	path := ""
	if fn.Pkg() != nil {
		path = fn.Pkg().Path()
	}
	ei.trustedNoLink = fn.Pkg() == nil || isStdPath(path) || path == golangSet
	ei.fresh = extFresh[ei.name]
	ei.argWrites = extArgWrites[ei.name]
	sig, _ := fn.Type().(*types.Signature)
	if sig == nil || sig.Recv() == nil {
		return ei
	}
	rt := sig.Recv().Type()
	_, ptr := rt.(*types.Pointer)
	_, iface := rt.Underlying().(*types.Interface)
	switch {
	case path == golangSet && iface:
		ei.recvMutated = setMutators[fn.Name()]
	case iface:
		// interface method of another package: std interfaces that write (io.Writer ...) are rare here; be conservative
		ei.recvMutated = fn.Pkg() != nil && !readOnlyIfaceMethod(fn.Name())
	case ptr && path == "math/big":
		ei.recvMutated = !bigReadOnly[fn.Name()]
	case ptr && (path == "log" || path == "regexp"):
		ei.recvMutated = false
	case ptr:
		ei.recvMutated = true // unknown pointer-receiver method: assume it writes its receiver
	}
	if ei.recvMutated && sig.Results().Len() > 0 && types.Identical(sig.Results().At(0).Type(), rt) {
		ei.retRecv = true
	}
	return ei
}

func readOnlyIfaceMethod(name string) bool {
	switch name {
	case "Error", "String", "Len", "Less", "Cardinality", "Contains":
		return true
	}
	return false
}

// callTarget describes the callee of a call expression.
type callTarget struct {
	kind     string // "pkg" (in-package function/method), "closure", "ext", "dynamic", "builtin", "conv"
	fn       *effFn
	obj      *types.Func
	builtin  string
	name     string   // c_callee
	recv     ast.Expr // receiver expression (method calls)
	implAddr bool     // receiver is implicitly address-taken
	ext      extInfo
}

func (a *effAn) target(call *ast.CallExpr) callTarget {
	p := a.p
	fun := unparen(call.Fun)
	if tv, ok := p.info.Types[fun]; ok && tv.IsType() {
		return callTarget{kind: "conv"}
	}
	if lit, ok := fun.(*ast.FuncLit); ok {
		if c := a.byLit[lit]; c != nil {
			return callTarget{kind: "closure", fn: c, name: c.name}
		}
	}
	var obj types.Object
	var recv ast.Expr
	var sel *ast.SelectorExpr
	switch f := fun.(type) {
	case *ast.Ident:
		obj = p.info.Uses[f]
	case *ast.SelectorExpr:
		obj = p.info.Uses[f.Sel]
		sel = f
	case *ast.IndexExpr: // generic instantiation f[T](...)
		if id, ok := unparen(f.X).(*ast.Ident); ok {
			obj = p.info.Uses[id]
		}
	}
	switch o := obj.(type) {
	case *types.Builtin:
		return callTarget{kind: "builtin", builtin: o.Name()}
	case *types.Func:
		ct := callTarget{obj: o}
		sig, _ := o.Type().(*types.Signature)
		if sig != nil && sig.Recv() != nil && sel != nil {
			if s := p.info.Selections[sel]; s != nil && s.Kind() == types.MethodVal {
				recv = sel.X
				_, recvPtr := sig.Recv().Type().(*types.Pointer)
				xt := p.info.Types[sel.X].Type
				if xt != nil {
					_, xPtr := xt.Underlying().(*types.Pointer)
					// promoted methods (embedded fields) are not treated as address-of-copy:
					// their receiver is classified by the region of the operand instead
					ct.implAddr = recvPtr && !xPtr && len(s.Index()) == 1
				}
				if _, isIface := sig.Recv().Type().Underlying().(*types.Interface); isIface && o.Pkg() == p.pkg {
					return callTarget{kind: "dynamic", name: "dynamic:" + p.text(call.Fun), recv: recv}
				}
			} else if s != nil && s.Kind() == types.MethodExpr {
				recv = nil // T.Method(x, ...): receiver is the first ordinary argument
			}
		}
		ct.recv = recv
		if fn := a.byFunc[o.Origin()]; fn != nil {
			ct.kind, ct.fn, ct.name = "pkg", fn, fn.name
			return ct
		}
		if o.Pkg() == p.pkg { // e.g. function of a file excluded by build tags: unknown body
			ct.kind, ct.name = "dynamic", "dynamic:"+p.text(call.Fun)
			return ct
		}
		ct.kind, ct.ext = "ext", classifyExt(o)
		ct.name = ct.ext.name
		return ct
	}
	ct := callTarget{kind: "dynamic", name: "dynamic:" + p.text(call.Fun)}
	return ct
}

// argList returns the argument expressions indexed as in c_args: for in-package
// callees index = position in f_params; for ext/dynamic callees receiver = 0, arguments 1...
func (ct callTarget) argList(call *ast.CallExpr) map[int][]ast.Expr {
	out := map[int][]ast.Expr{}
	base := 1
	switch ct.kind {
	case "pkg", "closure":
		base = 0
		if ct.fn.recv != "" && ct.recv != nil {
			base = 1
		}
	}
	if ct.recv != nil {
		out[0] = []ast.Expr{ct.recv}
	}
	n := -1
	if ct.fn != nil {
		n = len(ct.fn.params)
	}
	for i, e := range call.Args {
		k := base + i
		if n > 0 && k >= n {
			k = n - 1 // variadic tail
		}
		out[k] = append(out[k], e)
	}
	return out
}

// ---------------------------------------------------------------- basic lookups

var labFresh = elabel{k: lFresh}
var labUnknown = elabel{k: lUnknown}

func (a *effAn) tmp(l elabel) *enode {
	if l.k != lFresh {
		return constNode(l)
	}
	return &enode{}
}

func (a *effAn) obj(id *ast.Ident) types.Object {
	if o := a.p.info.Defs[id]; o != nil {
		return o
	}
	return a.p.info.Uses[id]
}

func (a *effAn) typ(e ast.Expr) types.Type {
	if tv, ok := a.p.info.Types[e]; ok && tv.Type != nil {
		return tv.Type
	}
	if id, ok := e.(*ast.Ident); ok {
		if o := a.obj(id); o != nil {
			return o.Type()
		}
	}
	return nil
}

func (a *effAn) isRefExpr(e ast.Expr) bool {
	t := a.typ(e)
	return t == nil || isRefKind(kindOf(t))
}

func (a *effAn) isNil(e ast.Expr) bool {
	id, ok := unparen(e).(*ast.Ident)
	if !ok {
		return false
	}
	_, isNil := a.p.info.Uses[id].(*types.Nil)
	return isNil
}

// varNode is the region holding the slot of variable v.
func (a *effAn) varNode(v *types.Var) *enode {
	if a.isGlobalVar(v) {
		name := globalName(a.p, v)
		if n := a.gnodes[name]; n != nil {
			return n
		}
		n := constNode(elabel{k: lGlobal, name: name})
		a.gnodes[name] = n
		return n
	}
	if n := a.nodes[v]; n != nil {
		return n
	}
	n := &enode{vars: []*types.Var{v}}
	fns := append([]*effFn{a.unit}, a.unit.closures...)
	for _, f := range fns {
		if i := f.paramIndex(v); i >= 0 && isRefKind(f.params[i].kind) {
			n.pts = constNode(elabel{k: lParam, v: v}) // what the argument refers to
		}
	}
	a.nodes[v] = n
	return n
}

func (a *effAn) overrideKey(sel *ast.SelectorExpr) (fieldKey, bool) {
	s := a.p.info.Selections[sel]
	if s == nil || s.Kind() != types.FieldVal || len(s.Index()) != 1 {
		return fieldKey{}, false
	}
	id, ok := unparen(sel.X).(*ast.Ident)
	if !ok {
		return fieldKey{}, false
	}
	base, ok := a.obj(id).(*types.Var)
	fld, ok2 := s.Obj().(*types.Var)
	if !ok || !ok2 {
		return fieldKey{}, false
	}
	k := fieldKey{base, fld}
	_, has := a.override[k]
	return k, has
}

// fieldNode is the pseudo-location of an overridden field r.f (see computeOverrides).
func (a *effAn) fieldNode(k fieldKey) *enode {
	if n := a.fnodes[k]; n != nil {
		return n
	}
	n := &enode{}
	a.fnodes[k] = n
	return n
}

func isPtrType(t types.Type) bool {
	if t == nil {
		return false
	}
	_, ok := t.Underlying().(*types.Pointer)
	return ok
}

func isArrayType(t types.Type) bool {
	if t == nil {
		return false
	}
	_, ok := t.Underlying().(*types.Array)
	return ok
}

// ---------------------------------------------------------------- loc: the region containing the cell of an lvalue

type cellInfo struct {
	region    *enode
	direct    bool // the only dereference on the path is of the identifier directVar itself
	directVar *types.Var
}

func (a *effAn) cell(e ast.Expr) cellInfo {
	e = unparen(e)
	p := a.p
	identVar := func(x ast.Expr) *types.Var {
		if id, ok := unparen(x).(*ast.Ident); ok {
			if v, ok := a.obj(id).(*types.Var); ok && !a.isGlobalVar(v) {
				return v
			}
		}
		return nil
	}
	switch x := e.(type) {
	case *ast.Ident:
		if v, ok := a.obj(x).(*types.Var); ok {
			return cellInfo{region: a.varNode(v)}
		}
	case *ast.SelectorExpr:
		s := p.info.Selections[x]
		if s != nil && s.Kind() == types.FieldVal {
			if isPtrType(a.typ(x.X)) {
				ci := cellInfo{region: a.val(x.X)}
				if v := identVar(x.X); v != nil && len(s.Index()) == 1 {
					ci.direct, ci.directVar = true, v
				}
				return ci
			}
			if len(s.Index()) > 1 && s.Indirect() { // through an embedded pointer: field-insensitive
				return cellInfo{region: ecollapse(a.val(x.X))}
			}
			return a.cell(x.X)
		}
		if v, ok := p.info.Uses[x.Sel].(*types.Var); ok && a.isGlobalVar(v) {
			return cellInfo{region: a.varNode(v)}
		}
	case *ast.IndexExpr:
		if isArrayType(a.typ(x.X)) {
			return a.cell(x.X)
		}
		return cellInfo{region: a.val(x.X)}
	case *ast.StarExpr:
		ci := cellInfo{region: a.val(x.X)}
		if v := identVar(x.X); v != nil {
			ci.direct, ci.directVar = true, v
		}
		return ci
	case *ast.CompositeLit, *ast.CallExpr, *ast.TypeAssertExpr, *ast.SliceExpr:
		// not addressable: a temporary holding the value
		n := &enode{}
		n.pts = a.val(e)
		return cellInfo{region: n}
	}
	return cellInfo{region: a.tmp(labUnknown)}
}

func (a *effAn) loc(e ast.Expr) *enode { return a.cell(e).region }

// ---------------------------------------------------------------- val: the region the references in a value point to

func (a *effAn) val(e ast.Expr) *enode {
	e = unparen(e)
	if !a.isRefExpr(e) {
		return a.tmp(labFresh)
	}
	p := a.p
	switch x := e.(type) {
	case *ast.Ident:
		switch o := a.obj(x).(type) {
		case *types.Var:
			return ptsOf(a.varNode(o))
		case *types.Func, *types.Nil:
			return a.tmp(labFresh)
		}
		return a.tmp(labUnknown)
	case *ast.SelectorExpr:
		if s := p.info.Selections[x]; s != nil {
			switch s.Kind() {
			case types.FieldVal:
				if k, ok := a.overrideKey(x); ok && x.Pos() >= a.override[k][1] {
					return ptsOf(a.fieldNode(k))
				}
				if isPtrType(a.typ(x.X)) {
					return ptsOf(a.val(x.X))
				}
				if len(s.Index()) > 1 && s.Indirect() {
					return ecollapse(a.val(x.X))
				}
				return a.val(x.X) // field of a struct value: field-insensitive
			case types.MethodVal:
				return a.recvVal(x)
			default:
				return a.tmp(labFresh)
			}
		}
		switch o := p.info.Uses[x.Sel].(type) {
		case *types.Var:
			return ptsOf(a.varNode(o))
		case *types.Func:
			return a.tmp(labFresh)
		}
		return a.tmp(labUnknown)
	case *ast.IndexExpr:
		if t := a.typ(x.X); t != nil {
			if _, isSig := t.Underlying().(*types.Signature); isSig {
				return a.val(x.X) // generic instantiation
			}
		}
		if isArrayType(a.typ(x.X)) {
			return a.val(x.X)
		}
		return ptsOf(a.val(x.X))
	case *ast.IndexListExpr:
		return a.val(x.X)
	case *ast.SliceExpr:
		if isArrayType(a.typ(x.X)) {
			return a.loc(x.X)
		}
		return a.val(x.X)
	case *ast.StarExpr:
		return ptsOf(a.val(x.X))
	case *ast.TypeAssertExpr:
		return a.val(x.X)
	case *ast.UnaryExpr:
		switch x.Op {
		case token.AND:
			return a.addrOf(x.X)
		case token.ARROW:
			return ptsOf(a.val(x.X))
		}
		return a.tmp(labFresh)
	case *ast.CompositeLit:
		content := a.tmp(labFresh)
		isMap := false
		if t := a.typ(x); t != nil {
			_, isMap = t.Underlying().(*types.Map)
		}
		for _, el := range x.Elts {
			if kv, ok := el.(*ast.KeyValueExpr); ok {
				if isMap {
					content = eunion(content, a.val(kv.Key))
				}
				content = eunion(content, a.val(kv.Value))
			} else {
				content = eunion(content, a.val(el))
			}
		}
		if t := a.typ(x); t != nil {
			switch t.Underlying().(type) {
			case *types.Slice, *types.Map:
				n := &enode{} // the new backing store
				n.pts = content
				return n
			}
		}
		return content // struct / array value: its references point to content
	case *ast.FuncLit:
		n := a.tmp(labFresh)
		if c := a.byLit[x]; c != nil {
			for _, v := range c.captured {
				n = eunion(n, a.varNode(v)) // the closure refers to the captured variables themselves
			}
		}
		return n
	case *ast.CallExpr:
		return a.callVal(x)
	case *ast.BasicLit, *ast.BinaryExpr:
		return a.tmp(labFresh)
	}
	return a.tmp(labUnknown)
}

// recvVal: what the receiver bound by method selector x.M refers to.
func (a *effAn) recvVal(sel *ast.SelectorExpr) *enode {
	s := a.p.info.Selections[sel]
	if f, ok := s.Obj().(*types.Func); ok {
		if sig, _ := f.Type().(*types.Signature); sig != nil && sig.Recv() != nil {
			if _, rp := sig.Recv().Type().(*types.Pointer); rp && !isPtrType(a.typ(sel.X)) {
				return a.addrOf(sel.X)
			}
		}
	}
	return a.val(sel.X)
}

// addrOf: the region &x points into.
func (a *effAn) addrOf(x ast.Expr) *enode {
	x = unparen(x)
	if _, ok := x.(*ast.CompositeLit); ok {
		n := &enode{}
		n.pts = a.val(x)
		return n
	}
	return a.loc(x)
}

// flowTo records that the references in a value (pointing to src) may be stored into lvalue lhs.
func (a *effAn) flowTo(lhs ast.Expr, src *enode) {
	lhs = unparen(lhs)
	if id, ok := lhs.(*ast.Ident); ok && id.Name == "_" {
		return
	}
	if !a.isRefExpr(lhs) {
		return
	}
	if sel, ok := lhs.(*ast.SelectorExpr); ok {
		if k, ok := a.overrideKey(sel); ok && sel.Pos() >= a.override[k][0] {
			eunion(ptsOf(a.fieldNode(k)), src)
			return
		}
	}
	eunion(ptsOf(a.loc(lhs)), src)
}

// ---------------------------------------------------------------- calls

func elemIsRef(t types.Type) bool {
	if t == nil {
		return true
	}
	switch u := t.Underlying().(type) {
	case *types.Slice:
		return isRefKind(kindOf(u.Elem()))
	case *types.Array:
		return isRefKind(kindOf(u.Elem()))
	case *types.Pointer:
		return elemIsRef(u.Elem())
	case *types.Map:
		return isRefKind(kindOf(u.Elem())) || isRefKind(kindOf(u.Key()))
	case *types.Chan:
		return isRefKind(kindOf(u.Elem()))
	case *types.Basic:
		return false // string
	}
	return true
}

func (a *effAn) relToLabel(r relLabel) elabel {
	switch r.k {
	case lGlobal:
		return elabel{k: lGlobal, name: r.name}
	case lFresh:
		return labFresh
	}
	return labUnknown
}

// argVal: region the k-th argument refers to (receiver: including an implicitly taken address).
func (a *effAn) argVal(ct callTarget, args map[int][]ast.Expr, k int) *enode {
	n := a.tmp(labFresh)
	for _, e := range args[k] {
		if k == 0 && ct.recv != nil && e == ct.recv {
			switch {
			case ct.implAddr:
				n = eunion(n, a.addrOf(e))
			case !a.isRefExpr(e):
			default:
				n = eunion(n, a.val(e))
			}
			continue
		}
		n = eunion(n, a.val(e))
	}
	return n
}

func (a *effAn) relNode(ct callTarget, args map[int][]ast.Expr, r relLabel) *enode {
	switch r.k {
	case lFresh:
		return &enode{}
	case lParam:
		return ecollapse(a.argVal(ct, args, r.idx))
	case lGlobal:
		return a.gnode(r.name)
	}
	return a.tmp(labUnknown)
}

func (a *effAn) gnode(name string) *enode {
	if n := a.gnodes[name]; n != nil {
		return n
	}
	n := constNode(elabel{k: lGlobal, name: name})
	a.gnodes[name] = n
	return n
}

// callVal applies the (idempotent) region effects of a call and returns what its result refers to.
func (a *effAn) callVal(call *ast.CallExpr) *enode {
	ct := a.target(call)
	resRef := a.isRefExpr(call)
	switch ct.kind {
	case "conv":
		if len(call.Args) == 1 && resRef {
			return a.val(call.Args[0])
		}
		return a.tmp(labFresh)
	case "builtin":
		switch ct.builtin {
		case "append":
			if len(call.Args) == 0 {
				return a.tmp(labFresh)
			}
			n := a.val(call.Args[0])
			if elemIsRef(a.typ(call.Args[0])) {
				for i, e := range call.Args[1:] {
					if call.Ellipsis.IsValid() && i == len(call.Args)-2 {
						eunion(ptsOf(n), ptsOf(a.val(e)))
					} else {
						eunion(ptsOf(n), a.val(e))
					}
				}
			}
			return n.find()
		case "copy":
			if len(call.Args) == 2 && elemIsRef(a.typ(call.Args[0])) {
				eunion(ptsOf(a.val(call.Args[0])), ptsOf(a.val(call.Args[1])))
			}
			return a.tmp(labFresh)
		case "recover":
			return a.tmp(labUnknown)
		case "min", "max":
			return a.tmp(labFresh)
		}
		return &enode{} // make, new: fresh memory
	case "pkg":
		args := ct.argList(call)
		f := ct.fn
		for k, t := range f.sumTaint {
			if len(args[k]) == 0 || t.k == lFresh {
				continue
			}
			ecollapse(a.argVal(ct, args, k)).taint(a.relToLabel(t))
		}
		if !resRef {
			return a.tmp(labFresh)
		}
		n := a.relNode(ct, args, f.sumRet)
		if f.sumRet.k == lFresh && f.sumDeep.k != lFresh {
			eunion(ptsOf(n), a.relNode(ct, args, f.sumDeep))
		}
		return n.find()
	case "closure":
		c := ct.fn
		for i, e := range call.Args {
			k := i
			if k >= len(c.params) {
				k = len(c.params) - 1
			}
			if k >= 0 && c.params[k].v != nil && a.isRefExpr(e) {
				eunion(ptsOf(a.varNode(c.params[k].v)), a.val(e))
			}
		}
		if resRef && c.retNode != nil {
			return ptsOf(c.retNode)
		}
		return a.tmp(labFresh)
	case "ext":
		args := ct.argList(call)
		if !ct.ext.trustedNoLink {
			for k := range args {
				ecollapse(a.argVal(ct, args, k)).taint(labUnknown)
			}
		}
		var recvNode *enode
		if ct.recv != nil {
			recvNode = a.argVal(ct, args, 0)
			if ct.ext.recvMutated {
				for k := range args {
					if k != 0 {
						eunion(ptsOf(recvNode), a.argVal(ct, args, k))
					}
				}
			}
		}
		switch {
		case !resRef:
			return a.tmp(labFresh)
		case ct.ext.fresh:
			return &enode{}
		case ct.ext.retRecv && recvNode != nil:
			return recvNode.find()
		}
		return a.tmp(labUnknown)
	}
	// dynamic: the callee is unknown
	args := ct.argList(call)
	for k := range args {
		ecollapse(a.argVal(ct, args, k)).taint(labUnknown)
	}
	if !resRef {
		return a.tmp(labFresh)
	}
	return a.tmp(labUnknown)
}

// ---------------------------------------------------------------- walking bodies with the current function

func (a *effAn) walk(root ast.Node, cur *effFn, visit func(n ast.Node, cur *effFn)) {
	if root == nil {
		return
	}
	ast.Inspect(root, func(n ast.Node) bool {
		if n == nil {
			return true
		}
		visit(n, cur)
		if lit, ok := n.(*ast.FuncLit); ok {
			if c := a.byLit[lit]; c != nil {
				a.walk(lit.Body, c, visit)
				return false
			}
		}
		return true
	})
}

func (a *effAn) unitRoots(u *effFn) []ast.Node {
	if u.isInit {
		var out []ast.Node
		for _, e := range a.initValues() {
			out = append(out, e)
		}
		return out
	}
	if u.decl != nil && u.decl.Body != nil {
		return []ast.Node{u.decl.Body}
	}
	return nil
}

// elemVal: what an element obtained by ranging over / receiving from x refers to.
func (a *effAn) elemVal(x ast.Expr) *enode {
	t := a.typ(x)
	if t == nil {
		return a.tmp(labUnknown)
	}
	switch t.Underlying().(type) {
	case *types.Array:
		return a.val(x)
	case *types.Slice, *types.Map, *types.Chan, *types.Pointer:
		return ptsOf(a.val(x))
	case *types.Basic:
		return a.tmp(labFresh)
	}
	return a.tmp(labUnknown) // range over func, ...
}

// flowVisit is pass A: unification.
func (a *effAn) flowVisit(n ast.Node, cur *effFn) {
	switch x := n.(type) {
	case *ast.AssignStmt:
		if len(x.Rhs) == 1 {
			if ta, ok := unparen(x.Rhs[0]).(*ast.TypeAssertExpr); ok && ta.Type == nil {
				return // header of a type switch: handled there
			}
		}
		if len(x.Lhs) == len(x.Rhs) {
			for i := range x.Lhs {
				a.flowTo(x.Lhs[i], a.val(x.Rhs[i]))
			}
		} else if len(x.Rhs) == 1 {
			src := a.val(x.Rhs[0])
			for _, l := range x.Lhs {
				a.flowTo(l, src)
			}
		}
	case *ast.ValueSpec:
		if len(x.Names) == len(x.Values) {
			for i := range x.Names {
				a.flowTo(x.Names[i], a.val(x.Values[i]))
			}
		} else if len(x.Values) == 1 {
			src := a.val(x.Values[0])
			for _, l := range x.Names {
				a.flowTo(l, src)
			}
		}
	case *ast.RangeStmt:
		src := a.elemVal(x.X)
		if x.Key != nil {
			a.flowTo(x.Key, src)
		}
		if x.Value != nil {
			a.flowTo(x.Value, src)
		}
	case *ast.ReturnStmt:
		for _, r := range x.Results {
			if a.isRefExpr(r) {
				eunion(ptsOf(cur.retNode), a.val(r))
			}
		}
	case *ast.SendStmt:
		if a.isRefExpr(x.Value) {
			eunion(ptsOf(a.val(x.Chan)), a.val(x.Value))
		}
	case *ast.CallExpr:
		a.callVal(x)
	case *ast.TypeSwitchStmt:
		var src ast.Expr
		if s, ok := x.Assign.(*ast.AssignStmt); ok && len(s.Rhs) == 1 {
			if ta, ok := unparen(s.Rhs[0]).(*ast.TypeAssertExpr); ok {
				src = ta.X
			}
		}
		if src != nil {
			for _, c := range x.Body.List {
				if v, ok := a.p.info.Implicits[c].(*types.Var); ok && isRefKind(kindOf(v.Type())) {
					eunion(ptsOf(a.varNode(v)), a.val(src))
				}
			}
		}
	}
}

// ---------------------------------------------------------------- captured variables, assignments, loops

type varAssign struct {
	v   *types.Var
	pos token.Pos
}

func (a *effAn) computeCaptured() {
	for _, c := range a.all {
		if c.lit == nil {
			continue
		}
		seen := map[*types.Var]bool{}
		cc := c
		ast.Inspect(c.lit.Body, func(n ast.Node) bool {
			id, ok := n.(*ast.Ident)
			if !ok {
				return true
			}
			v, ok := a.p.info.Uses[id].(*types.Var)
			if !ok || v.IsField() || a.isGlobalVar(v) || seen[v] {
				return true
			}
			if v.Pos() < cc.pos || v.Pos() >= cc.end {
				seen[v] = true
				cc.captured = append(cc.captured, v)
			}
			return true
		})
		sort.Slice(c.captured, func(i, j int) bool { return c.captured[i].Pos() < c.captured[j].Pos() })
	}
}

// unitAssigns lists every assignment to (or address-taking of) a local variable in the unit, and the loops.
func (a *effAn) unitAssigns(u *effFn) (as []varAssign, loops [][2]token.Pos) {
	local := func(e ast.Expr) *types.Var {
		id, ok := unparen(e).(*ast.Ident)
		if !ok || id.Name == "_" {
			return nil
		}
		if a.p.info.Defs[id] != nil {
			return nil // declaration
		}
		v, ok := a.p.info.Uses[id].(*types.Var)
		if !ok || v.IsField() || a.isGlobalVar(v) {
			return nil
		}
		return v
	}
	add := func(e ast.Expr, pos token.Pos) {
		if v := local(e); v != nil {
			as = append(as, varAssign{v, pos})
		}
	}
	for _, root := range a.unitRoots(u) {
		ast.Inspect(root, func(n ast.Node) bool {
			switch x := n.(type) {
			case *ast.AssignStmt:
				for _, l := range x.Lhs {
					add(l, l.Pos())
				}
			case *ast.IncDecStmt:
				add(x.X, x.X.Pos())
			case *ast.RangeStmt:
				loops = append(loops, [2]token.Pos{x.Pos(), x.End()})
				if x.Tok == token.ASSIGN {
					if x.Key != nil {
						add(x.Key, x.Key.Pos())
					}
					if x.Value != nil {
						add(x.Value, x.Value.Pos())
					}
				}
			case *ast.ForStmt:
				loops = append(loops, [2]token.Pos{x.Pos(), x.End()})
			case *ast.UnaryExpr:
				if x.Op == token.AND {
					add(x.X, x.Pos())
				}
			case *ast.CallExpr:
				if ct := a.target(x); ct.implAddr && ct.recv != nil {
					add(ct.recv, x.Pos())
				}
			}
			return true
		})
	}
	return
}

func capturedWrite(u *effFn, c *effFn, v *types.Var, pos token.Pos, loops [][2]token.Pos) bool {
	if c.pos <= pos && pos < c.end {
		return true // inside the closure
	}
	if pos > c.pos {
		return true // after creation
	}
	for _, l := range loops {
		if l[0] <= c.pos && c.end <= l[1] && l[0] <= pos && pos < l[1] && !(l[0] <= v.Pos() && v.Pos() < l[1]) {
			return true // same loop, variable declared outside it
		}
	}
	return false
}

// ---------------------------------------------------------------- the dominating-reassignment refinement

func (a *effAn) computeOverrides(u *effFn) {
	a.override = map[fieldKey][2]token.Pos{}
	if u.decl == nil || u.decl.Body == nil {
		return
	}
	p := a.p
	body := u.decl.Body
	params := map[*types.Var]bool{}
	for _, pr := range u.params {
		if pr.v != nil && (pr.kind == "pointer" || pr.kind == "struct-with-refs") {
			params[pr.v] = true
		}
	}
	if len(params) == 0 {
		return
	}
	jumps := false
	fieldBase := map[*ast.Ident]bool{}
	ast.Inspect(body, func(n ast.Node) bool {
		switch x := n.(type) {
		case *ast.LabeledStmt:
			jumps = true
		case *ast.BranchStmt:
			if x.Tok == token.GOTO {
				jumps = true
			}
		case *ast.SelectorExpr:
			if s := p.info.Selections[x]; s != nil && s.Kind() == types.FieldVal && len(s.Index()) == 1 {
				if id, ok := unparen(x.X).(*ast.Ident); ok {
					fieldBase[id] = true
				}
			}
		}
		return true
	})
	if jumps {
		return
	}
	bare := map[*types.Var]bool{}
	var scan func(n ast.Node, inLit bool)
	scan = func(n ast.Node, inLit bool) {
		ast.Inspect(n, func(m ast.Node) bool {
			switch x := m.(type) {
			case *ast.FuncLit:
				if !inLit {
					scan(x.Body, true)
					return false
				}
			case *ast.Ident:
				if v, ok := p.info.Uses[x].(*types.Var); ok && params[v] && (inLit || !fieldBase[x]) {
					bare[v] = true
				}
			}
			return true
		})
	}
	scan(body, false)

	type finfo struct {
		has   bool
		first [2]token.Pos
	}
	byKey := map[fieldKey]*finfo{}
	badField := map[*types.Var]bool{}
	fieldOf := func(e ast.Expr) (*ast.SelectorExpr, *types.Var, *types.Selection) {
		sel, ok := unparen(e).(*ast.SelectorExpr)
		if !ok {
			return nil, nil, nil
		}
		s := p.info.Selections[sel]
		if s == nil || s.Kind() != types.FieldVal {
			return nil, nil, nil
		}
		f, _ := s.Obj().(*types.Var)
		return sel, f, s
	}
	record := func(lhs ast.Expr, top ast.Stmt) {
		sel, fld, s := fieldOf(lhs)
		if sel == nil || fld == nil {
			return
		}
		var base *types.Var
		if id, ok := unparen(sel.X).(*ast.Ident); ok {
			base, _ = a.obj(id).(*types.Var)
		}
		if base == nil || !params[base] || len(s.Index()) != 1 {
			badField[fld] = true
			return
		}
		k := fieldKey{base, fld}
		fi := byKey[k]
		if fi == nil {
			fi = &finfo{}
			byKey[k] = fi
		}
		if top != nil && !fi.has {
			fi.has, fi.first = true, [2]token.Pos{top.Pos(), top.End()}
		}
	}
	for _, st := range body.List {
		if as, ok := st.(*ast.AssignStmt); ok && as.Tok == token.ASSIGN {
			for _, l := range as.Lhs {
				record(l, as)
			}
		}
	}
	ast.Inspect(body, func(n ast.Node) bool {
		switch x := n.(type) {
		case *ast.AssignStmt:
			for _, l := range x.Lhs {
				record(l, nil)
			}
		case *ast.IncDecStmt:
			record(x.X, nil)
		case *ast.RangeStmt:
			if x.Key != nil {
				record(x.Key, nil)
			}
			if x.Value != nil {
				record(x.Value, nil)
			}
		case *ast.UnaryExpr:
			if x.Op == token.AND {
				if _, fld, _ := fieldOf(x.X); fld != nil {
					badField[fld] = true
				}
			}
		}
		return true
	})
	for k, fi := range byKey {
		if fi.has && !bare[k.base] && !badField[k.field] && isRefKind(kindOf(k.field.Type())) {
			a.override[k] = fi.first
		}
	}
}

// ---------------------------------------------------------------- per-unit analysis and summaries

func (a *effAn) analyzeUnit(u *effFn) {
	a.unit = u
	a.nodes = map[*types.Var]*enode{}
	a.fnodes = map[fieldKey]*enode{}
	a.gnodes = map[string]*enode{}
	a.computeOverrides(u)
	fns := append([]*effFn{u}, u.closures...)
	for _, f := range fns {
		f.retNode = a.tmp(labFresh)
		if f.sig == nil {
			continue
		}
		for i := 0; i < f.sig.Results().Len(); i++ {
			v := f.sig.Results().At(i)
			if v.Name() != "" && v.Name() != "_" && isRefKind(kindOf(v.Type())) {
				eunion(ptsOf(f.retNode), ptsOf(a.varNode(v)))
			}
		}
	}
	for _, root := range a.unitRoots(u) {
		a.walk(root, u, a.flowVisit)
	}
}

func (a *effAn) relOf(u *effFn, l elabel) relLabel {
	switch l.k {
	case lFresh:
		return relLabel{k: lFresh}
	case lParam:
		if i := u.paramIndex(l.v); i >= 0 {
			return relLabel{k: lParam, idx: i}
		}
		return relLabel{k: lUnknown}
	case lGlobal:
		return relLabel{k: lGlobal, name: l.name}
	}
	return relLabel{k: lUnknown}
}

// summarize must run right after analyzeUnit(u); reports whether a summary changed.
func (a *effAn) summarize(u *effFn) bool {
	if u.decl == nil {
		return false
	}
	changed := false
	var ret, deep relLabel
	if u.decl.Body == nil {
		ret, deep = relLabel{k: lUnknown}, relLabel{k: lUnknown}
	} else {
		r0 := ptsOf(u.retNode)
		ret = a.relOf(u, r0.label)
		deep = a.relOf(u, deepLabel(ptsOf(r0)))
		if ret.k != lFresh {
			deep = relLabel{k: lFresh} // non-private memory is collapsed at the call site anyway
		}
	}
	if ret != u.sumRet || deep != u.sumDeep {
		u.sumRet, u.sumDeep, changed = ret, deep, true
	}
	u.retFresh = ret.k == lFresh
	for k, pr := range u.params {
		t := relLabel{k: lFresh}
		if pr.v != nil && isRefKind(pr.kind) {
			if u.decl.Body == nil {
				t = relLabel{k: lUnknown}
			} else {
				l := deepLabel(ptsOf(a.varNode(pr.v)))
				if l.k == lParam && l.v == pr.v {
					l = labFresh // untouched; only what the function linked into it counts
				}
				for key, fn := range a.fnodes {
					if key.base == pr.v {
						l = joinLabel(l, deepLabel(ptsOf(fn)))
					}
				}
				t = a.relOf(u, l)
			}
		}
		if t != u.sumTaint[k] {
			u.sumTaint[k], changed = t, true
		}
	}
	return changed
}

// ---------------------------------------------------------------- rendering of classes

func (a *effAn) render(cur *effFn, n *enode) string {
	r := n.find()
	switch r.label.k {
	case lUnknown:
		return "unknown"
	case lGlobal:
		return "global:" + r.label.name
	case lParam:
		if i := cur.paramIndex(r.label.v); i >= 0 {
			return "param:" + itoa(i)
		}
		o := a.owner(r.label.v)
		if o != cur && cur.inside(o) {
			return "captured:" + r.label.v.Name()
		}
		return "unknown" // parameter of a nested closure: bound by unknown callers
	}
	if cur.lit != nil {
		vs := append([]*types.Var(nil), r.vars...)
		sort.Slice(vs, func(i, j int) bool { return vs[i].Pos() < vs[j].Pos() })
		for _, v := range vs {
			if o := a.owner(v); o != cur && cur.inside(o) {
				return "captured:" + v.Name()
			}
		}
	}
	return "fresh"
}

func joinClass(x, y string) string {
	switch {
	case x == "fresh":
		return y
	case y == "fresh", x == y:
		return x
	}
	return "unknown"
}

// renderDeep is the class of a region joined with the classes of everything reachable from it:
// this is what a callee may reach through an argument.
func (a *effAn) renderDeep(cur *effFn, n *enode) string {
	cls := "fresh"
	seen := map[*enode]bool{}
	for r := n.find(); r != nil && !seen[r]; {
		seen[r] = true
		cls = joinClass(cls, a.render(cur, r))
		if r.pts == nil {
			break
		}
		r = r.pts.find()
	}
	return cls
}

func itoa(i int) string {
	if i == 0 {
		return "0"
	}
	neg := i < 0
	if neg {
		i = -i
	}
	s := ""
	for i > 0 {
		s = string(rune('0'+i%10)) + s
		i /= 10
	}
	if neg {
		s = "-" + s
	}
	return s
}

func (a *effAn) rootText(e ast.Expr) string {
	for {
		e = unparen(e)
		switch x := e.(type) {
		case *ast.SelectorExpr:
			if a.p.info.Selections[x] == nil { // pkg.Name
				return a.p.text(x)
			}
			e = x.X
		case *ast.IndexExpr:
			e = x.X
		case *ast.SliceExpr:
			e = x.X
		case *ast.StarExpr:
			e = x.X
		case *ast.TypeAssertExpr:
			e = x.X
		case *ast.UnaryExpr:
			if x.Op != token.AND {
				return a.p.text(x)
			}
			e = x.X
		default:
			return a.p.text(e)
		}
	}
}

// ---------------------------------------------------------------- pass B: facts

type emitState struct {
	assigns []varAssign
	loops   [][2]token.Pos
	callFun map[ast.Expr]bool
}

func (a *effAn) addStore(cur *effFn, at token.Pos, target ast.Expr, class string, direct bool, k int) {
	pos := a.p.fset.Position(at)
	a.stores = append(a.stores, effStore{fn: cur.name, file: a.p.fileName(at), line: pos.Line, col: pos.Column,
		target: a.p.text(target), root: a.rootText(target), class: class, direct: direct, directK: k})
}

// storeCell: the cell denoted by lvalue e is written.
func (a *effAn) storeCell(cur *effFn, st *emitState, e ast.Expr) {
	e = unparen(e)
	if id, ok := e.(*ast.Ident); ok {
		if id.Name == "_" {
			return
		}
		v, ok := a.obj(id).(*types.Var)
		if !ok {
			return
		}
		if a.isGlobalVar(v) {
			a.globalAssigned[v] = true
			a.addStore(cur, e.Pos(), e, "global:"+globalName(a.p, v), false, 0)
			return
		}
		if a.p.info.Defs[id] != nil {
			return // declaration
		}
		if o := a.owner(v); o != cur {
			a.addStore(cur, e.Pos(), e, "captured:"+v.Name(), false, 0)
			return
		}
		for _, c := range a.unit.closures {
			for _, cv := range c.captured {
				if cv == v && capturedWrite(a.unit, c, v, e.Pos(), st.loops) {
					a.addStore(cur, e.Pos(), e, "captured:"+v.Name(), false, 0)
					return
				}
			}
		}
		return
	}
	ci := a.cell(e)
	class := a.render(cur, ci.region)
	direct, k := false, 0
	if ci.direct {
		if i := cur.paramIndex(ci.directVar); i >= 0 && class == "param:"+itoa(i) {
			direct, k = true, i
		}
	}
	a.addStore(cur, e.Pos(), e, class, direct, k)
}

// storeRef: the memory that value e refers to is written (mutator receiver, sort argument, ...).
func (a *effAn) storeRef(cur *effFn, at token.Pos, e ast.Expr, skipFresh bool) {
	e = unparen(e)
	var n *enode
	if u, ok := e.(*ast.UnaryExpr); ok && u.Op == token.AND {
		n = a.addrOf(u.X)
	} else if !a.isRefExpr(e) {
		n = a.addrOf(e) // implicit address of a value
	} else {
		n = a.val(e)
	}
	class := a.render(cur, n)
	if skipFresh && class == "fresh" {
		return
	}
	a.addStore(cur, at, e, class, false, 0)
}

// origin is the class of an argument expression; implicit = receiver whose address is taken implicitly.
func (a *effAn) origin(cur *effFn, call *ast.CallExpr, e ast.Expr, implicit bool) (string, bool) {
	e = unparen(e)
	if a.isNil(e) {
		return "", false
	}
	operand := ast.Expr(nil)
	if implicit {
		operand = e
	} else if u, ok := e.(*ast.UnaryExpr); ok && u.Op == token.AND {
		operand = unparen(u.X)
	}
	if operand == nil {
		t := a.typ(e)
		if t == nil || !isRefKind(kindOf(t)) {
			return "", false
		}
		return a.renderDeep(cur, a.val(e)), true
	}
	if _, ok := operand.(*ast.CompositeLit); ok {
		return a.renderDeep(cur, a.val(operand)), true
	}
	if id, ok := operand.(*ast.Ident); ok {
		if v, ok := a.obj(id).(*types.Var); ok && !a.isGlobalVar(v) {
			if o := a.owner(v); o != cur {
				return "captured:" + v.Name(), true
			}
			line := a.p.line(call.Pos())
			a.copyShares = append(a.copyShares, ctuple(cstr(cur.name), cnat(line), cstr(v.Name()), cinline(cstrs(refFields(v.Type())))))
			a.copyReach = append(a.copyReach, ctuple(cstr(cur.name), cnat(line), cstr(v.Name()), cstr(a.renderDeep(cur, ptsOf(a.varNode(v))))))
			return "addr-of-value-copy", true
		}
	}
	return a.renderDeep(cur, a.addrOf(operand)), true
}

func (a *effAn) addCall(cur *effFn, call *ast.CallExpr, ct callTarget) {
	args := ct.argList(call)
	var ks []int
	for k := range args {
		ks = append(ks, k)
	}
	sort.Ints(ks)
	var out []string
	for _, k := range ks {
		for _, e := range args[k] {
			implicit := k == 0 && ct.recv != nil && e == ct.recv && ct.implAddr
			if o, ok := a.origin(cur, call, e, implicit); ok {
				out = append(out, ctuple(cnat(k), cstr(o)))
			}
		}
	}
	pos := a.p.fset.Position(call.Pos())
	a.calls = append(a.calls, effCall{fn: cur.name, file: a.p.fileName(call.Pos()), line: pos.Line, col: pos.Column,
		callee: ct.name, args: out})
}

func (a *effAn) emitVisit(st *emitState) func(n ast.Node, cur *effFn) {
	return func(n ast.Node, cur *effFn) {
		switch x := n.(type) {
		case *ast.AssignStmt:
			for _, l := range x.Lhs {
				a.storeCell(cur, st, l)
			}
		case *ast.IncDecStmt:
			a.storeCell(cur, st, x.X)
		case *ast.RangeStmt:
			if x.Tok == token.ASSIGN {
				if x.Key != nil {
					a.storeCell(cur, st, x.Key)
				}
				if x.Value != nil {
					a.storeCell(cur, st, x.Value)
				}
			}
		case *ast.SendStmt:
			a.storeRef(cur, x.Pos(), x.Chan, false)
		case *ast.GoStmt:
			a.goStmts = append(a.goStmts, [3]string{cur.name, a.p.fileName(x.Pos()), itoa(a.p.line(x.Pos()))})
		case *ast.UnaryExpr:
			if x.Op == token.AND {
				if id, ok := unparen(x.X).(*ast.Ident); ok {
					if v, ok := a.obj(id).(*types.Var); ok && a.isGlobalVar(v) && v.Pkg() == a.p.pkg {
						a.globalAssigned[v] = true // address taken: may be assigned through the pointer
					}
				}
			}
		case *ast.CallExpr:
			st.callFun[unparen(x.Fun)] = true
			ct := a.target(x)
			switch ct.kind {
			case "conv":
			case "builtin":
				switch ct.builtin {
				case "append":
					if len(x.Args) > 0 {
						a.storeRef(cur, x.Pos(), x.Args[0], true)
					}
				case "copy", "delete", "close", "clear":
					if len(x.Args) > 0 {
						a.storeRef(cur, x.Pos(), x.Args[0], false)
					}
				}
			case "ext":
				if ct.ext.recvMutated && ct.recv != nil {
					a.storeRef(cur, x.Pos(), ct.recv, false)
				}
				for _, k := range ct.ext.argWrites {
					if k-1 < len(x.Args) {
						a.storeRef(cur, x.Pos(), x.Args[k-1], false)
					}
				}
				a.addCall(cur, x, ct)
			default:
				a.addCall(cur, x, ct)
			}
		case *ast.SelectorExpr:
			st.callFun[x.Sel] = true
			if st.callFun[x] {
				return
			}
			if s := a.p.info.Selections[x]; s != nil && s.Kind() == types.MethodVal {
				// method value: recorded as a call edge binding the receiver
				fake := &ast.CallExpr{Fun: x, Lparen: x.End(), Rparen: x.End()}
				ct := a.target(fake)
				a.addCall(cur, fake, ct)
			} else if s != nil && s.Kind() == types.MethodExpr {
				// method expression T.M used as a value: edge without argument binding
				if f, ok := s.Obj().(*types.Func); ok {
					name := extName(f)
					if fn := a.byFunc[f.Origin()]; fn != nil {
						name = fn.name
					}
					pos := a.p.fset.Position(x.Pos())
					a.calls = append(a.calls, effCall{fn: cur.name, file: a.p.fileName(x.Pos()), line: pos.Line, col: pos.Column, callee: name})
				}
			} else if s == nil {
				if f, ok := a.p.info.Uses[x.Sel].(*types.Func); ok {
					a.funcRef(cur, x, f)
				}
			}
		case *ast.Ident:
			if st.callFun[x] {
				return
			}
			if f, ok := a.p.info.Uses[x].(*types.Func); ok {
				a.funcRef(cur, x, f)
			}
		}
	}
}

// funcRef: a function used as a value (not called here): edge without argument binding.
func (a *effAn) funcRef(cur *effFn, e ast.Expr, f *types.Func) {
	if sig, _ := f.Type().(*types.Signature); sig == nil || sig.Recv() != nil {
		return
	}
	name := ""
	if fn := a.byFunc[f.Origin()]; fn != nil {
		name = fn.name
	} else {
		name = extName(f)
	}
	pos := a.p.fset.Position(e.Pos())
	a.calls = append(a.calls, effCall{fn: cur.name, file: a.p.fileName(e.Pos()), line: pos.Line, col: pos.Column, callee: name})
}

func (a *effAn) emitUnit(u *effFn) {
	st := &emitState{callFun: map[ast.Expr]bool{}}
	st.assigns, st.loops = a.unitAssigns(u)
	for _, root := range a.unitRoots(u) {
		a.walk(root, u, a.emitVisit(st))
	}
	for _, c := range u.closures {
		var caps []string
		for _, v := range c.captured {
			w := false
			for _, as := range st.assigns {
				if as.v == v && capturedWrite(u, c, v, as.pos, st.loops) {
					w = true
				}
			}
			caps = append(caps, ctuple(cstr(v.Name()), cbool(w)))
		}
		a.closInfo = append(a.closInfo, ctuple(cstr(c.name), cstr(c.encl.name), cinline(caps)))
	}
}

// ---------------------------------------------------------------- output

func genEffects(p *Pkg) string {
	a := &effAn{p: p, globalAssigned: map[*types.Var]bool{}}
	a.collect()
	a.computeCaptured()
	for iter := 0; ; iter++ {
		changed := false
		for _, u := range a.units {
			a.analyzeUnit(u)
			if a.summarize(u) {
				changed = true
			}
		}
		if !changed {
			break
		}
		if iter > 50 { // cannot happen (finite ascending chain); fail safe
			for _, u := range a.units {
				u.sumRet = relLabel{k: lUnknown}
				for k := range u.sumTaint {
					u.sumTaint[k] = relLabel{k: lUnknown}
				}
				u.retFresh = false
			}
			break
		}
	}
	for _, u := range a.units {
		a.analyzeUnit(u)
		for _, c := range u.closures {
			c.retFresh = a.render(c, ptsOf(c.retNode)) == "fresh"
		}
		a.emitUnit(u)
	}

	var sb strings.Builder
	sb.WriteString(header)
	sb.WriteString("\n")
	sb.WriteString("(* Write-footprint facts. Parameter indices: position in f_params (receiver first) for in-package\n")
	sb.WriteString("   callees; for ext:/dynamic: callees the receiver is 0 and the arguments are 1.. *)\n")
	sb.WriteString("Record eff_func := mkFunc { f_name : string; f_file : string; f_line : nat; f_exported : bool; f_recv : string; f_params : list (string * string) }.\n")
	sb.WriteString("Record eff_store := mkStore { s_func : string; s_file : string; s_line : nat; s_target : string; s_root : string; s_class : string }.\n")
	sb.WriteString("Record eff_call := mkCall { c_func : string; c_file : string; c_line : nat; c_callee : string; c_args : list (nat * string) }.\n\n")

	// functions
	fs := append([]*effFn(nil), a.all...)
	sort.SliceStable(fs, func(i, j int) bool {
		if fs[i].file != fs[j].file {
			return fs[i].file < fs[j].file
		}
		if fs[i].line != fs[j].line {
			return fs[i].line < fs[j].line
		}
		return fs[i].name < fs[j].name
	})
	var el []string
	for _, f := range fs {
		var ps []string
		for _, pr := range f.params {
			ps = append(ps, ctuple(cstr(pr.name), cstr(pr.kind)))
		}
		el = append(el, strings.Join([]string{"mkFunc", cstr(f.name), cstr(f.file), cnat(f.line), cbool(f.exported), cstr(f.recv), cinline(ps)}, " "))
	}
	sb.WriteString(def("eff_funcs", "list eff_func", clist(el)))

	// stores
	sort.SliceStable(a.stores, func(i, j int) bool {
		x, y := a.stores[i], a.stores[j]
		if x.file != y.file {
			return x.file < y.file
		}
		if x.line != y.line {
			return x.line < y.line
		}
		if x.col != y.col {
			return x.col < y.col
		}
		return x.target < y.target
	})
	el = nil
	var direct []string
	for _, s := range a.stores {
		el = append(el, strings.Join([]string{"mkStore", cstr(s.fn), cstr(s.file), cnat(s.line), cstr(s.target), cstr(s.root), cstr(s.class)}, " "))
		if s.direct {
			direct = append(direct, ctuple(cstr(s.fn), cnat(s.line), cstr(s.target), cnat(s.directK)))
		}
	}
	sb.WriteString(def("eff_stores", "list eff_store", clist(el)))

	// calls
	sort.SliceStable(a.calls, func(i, j int) bool {
		x, y := a.calls[i], a.calls[j]
		if x.file != y.file {
			return x.file < y.file
		}
		if x.line != y.line {
			return x.line < y.line
		}
		if x.col != y.col {
			return x.col < y.col
		}
		return x.callee < y.callee
	})
	el = nil
	for _, c := range a.calls {
		el = append(el, strings.Join([]string{"mkCall", cstr(c.fn), cstr(c.file), cnat(c.line), cstr(c.callee), cinline(c.args)}, " "))
	}
	sb.WriteString(def("eff_calls", "list eff_call", clist(el)))

	el = nil
	for _, g := range a.goStmts {
		n := 0
		for _, ch := range g[2] {
			n = n*10 + int(ch-'0')
		}
		el = append(el, ctuple(cstr(g[0]), cstr(g[1]), cnat(n)))
	}
	sb.WriteString(def("eff_go_stmts", "list (string * string * nat)", clist(el)))

	el = nil
	p.eachSpec(token.VAR, func(id *ast.Ident, _ *ast.ValueSpec, _ int) {
		if id.Name == "_" {
			return
		}
		v, ok := p.info.Defs[id].(*types.Var)
		if !ok {
			return
		}
		el = append(el, ctuple(cstr(v.Name()), cstr(kindOf(v.Type())), cbool(a.globalAssigned[v])))
	})
	sort.Strings(el)
	sb.WriteString(def("eff_globals", "list (string * string * bool)", clist(el)))

	sb.WriteString(def("eff_closures", "list (string * string * list (string * bool))", clist(a.closInfo)))
	sb.WriteString(def("eff_copy_shares", "list (string * nat * string * list string)", clist(a.copyShares)))

	el = nil
	for _, f := range fs {
		if f.isInit {
			continue
		}
		el = append(el, ctuple(cstr(f.name), cbool(f.retFresh)))
	}
	sb.WriteString(def("eff_returns_fresh", "list (string * bool)", clist(el)))

	sb.WriteString("(* Additions to the agreed vocabulary (information the closure over the call graph needs). *)\n")
	sb.WriteString("(* param:k stores whose cell lies INSIDE the object parameter k points to (one dereference of the\n")
	sb.WriteString("   parameter itself, then value fields only): (function, line, target, k).  Under an\n")
	sb.WriteString("   addr-of-value-copy argument exactly these are private; deeper param:k stores go where the copy's\n")
	sb.WriteString("   reference fields go, see eff_copy_reach. *)\n")
	sb.WriteString(def("eff_param_stores_direct", "list (string * nat * string * nat)", clist(direct)))
	sb.WriteString("(* (caller, line, x, class of the memory reachable through the reference fields of x) *)\n")
	sb.WriteString(def("eff_copy_reach", "list (string * nat * string * string)", clist(a.copyReach)))
	return sb.String()
}
