package main

import (
	"crypto/sha256"
	"fmt"
	"go/ast"
	"go/constant"
	"go/token"
	"go/types"
	"math/big"
	"sort"
	"strconv"
	"strings"
)

// describe renders an expression as const:<v> / param:<name> / other:<src>.
func (p *Pkg) describe(e ast.Expr, params map[types.Object]bool) string {
	if v := p.constOf(e); v != nil {
		return "const:" + constDesc(v)
	}
	if id, ok := unparen(e).(*ast.Ident); ok {
		if obj := p.info.Uses[id]; obj != nil && params[obj] {
			return "param:" + id.Name
		}
	}
	return "other:" + p.text(e)
}

func (p *Pkg) paramSet(fd *ast.FuncDecl) map[types.Object]bool {
	m := map[types.Object]bool{}
	add := func(fl *ast.FieldList) {
		if fl == nil {
			return
		}
		for _, f := range fl.List {
			for _, n := range f.Names {
				if obj := p.info.Defs[n]; obj != nil {
					m[obj] = true
				}
			}
		}
	}
	add(fd.Recv)
	add(fd.Type.Params)
	return m
}

func pairList(kv [][2]string) string {
	var el []string
	for _, x := range kv {
		el = append(el, ctuple(cstr(x[0]), cstr(x[1])))
	}
	return cinline(el)
}

// compositeFields lists the key/value pairs (or positional fields) of a struct literal.
func (p *Pkg) compositeFields(cl *ast.CompositeLit, params map[types.Object]bool) [][2]string {
	var out [][2]string
	var st *types.Struct
	if tv, ok := p.info.Types[cl]; ok && tv.Type != nil {
		t := tv.Type
		if pt, ok := t.Underlying().(*types.Pointer); ok {
			t = pt.Elem()
		}
		st, _ = t.Underlying().(*types.Struct)
	}
	for i, el := range cl.Elts {
		if kv, ok := el.(*ast.KeyValueExpr); ok {
			key := p.text(kv.Key)
			if id, ok := kv.Key.(*ast.Ident); ok {
				key = id.Name
			}
			out = append(out, [2]string{key, p.describe(kv.Value, params)})
		} else {
			key := "#" + strconv.Itoa(i)
			if st != nil && i < st.NumFields() {
				key = st.Field(i).Name()
			}
			out = append(out, [2]string{key, p.describe(el, params)})
		}
	}
	return out
}

// constructorFields describes what a constructor function stores into the value it returns.
func (p *Pkg) constructorFields(fd *ast.FuncDecl) [][2]string {
	if fd == nil || fd.Body == nil {
		return nil
	}
	params := p.paramSet(fd)
	// the local that is returned (if any)
	var ret types.Object
	var direct []*ast.CompositeLit
	ast.Inspect(fd.Body, func(n ast.Node) bool {
		if _, ok := n.(*ast.FuncLit); ok {
			return false
		}
		if rs, ok := n.(*ast.ReturnStmt); ok && len(rs.Results) >= 1 {
			e := unparen(rs.Results[0])
			if id, ok := e.(*ast.Ident); ok {
				if obj := p.info.Uses[id]; obj != nil {
					ret = obj
				}
			} else if cl := asCompositeLit(e); cl != nil {
				direct = append(direct, cl)
			}
		}
		return true
	})
	type item struct {
		pos token.Pos
		kv  [][2]string
	}
	var items []item
	for _, cl := range direct {
		items = append(items, item{cl.Pos(), p.compositeFields(cl, params)})
	}
	objOf := func(e ast.Expr) types.Object {
		if id, ok := unparen(e).(*ast.Ident); ok {
			if o := p.info.Defs[id]; o != nil {
				return o
			}
			return p.info.Uses[id]
		}
		return nil
	}
	ast.Inspect(fd.Body, func(n ast.Node) bool {
		switch s := n.(type) {
		case *ast.AssignStmt:
			if len(s.Lhs) != len(s.Rhs) {
				return true
			}
			for i, l := range s.Lhs {
				l = unparen(l)
				if sel, ok := l.(*ast.SelectorExpr); ok && ret != nil && s.Tok == token.ASSIGN {
					if objOf(sel.X) == ret {
						items = append(items, item{s.Pos(), [][2]string{{sel.Sel.Name, p.describe(s.Rhs[i], params)}}})
					}
				} else if ret != nil && objOf(l) == ret {
					if cl := asCompositeLit(s.Rhs[i]); cl != nil {
						items = append(items, item{cl.Pos(), p.compositeFields(cl, params)})
					}
				}
			}
		case *ast.ValueSpec:
			for i, nm := range s.Names {
				if ret != nil && p.info.Defs[nm] == ret && i < len(s.Values) {
					if cl := asCompositeLit(s.Values[i]); cl != nil {
						items = append(items, item{cl.Pos(), p.compositeFields(cl, params)})
					}
				}
			}
		}
		return true
	})
	sort.SliceStable(items, func(i, j int) bool { return items[i].pos < items[j].pos })
	var out [][2]string
	for _, it := range items {
		out = append(out, it.kv...)
	}
	return out
}

// asCompositeLit accepts T{...} and &T{...}.
func asCompositeLit(e ast.Expr) *ast.CompositeLit {
	e = unparen(e)
	if u, ok := e.(*ast.UnaryExpr); ok && u.Op == token.AND {
		e = unparen(u.X)
	}
	cl, _ := e.(*ast.CompositeLit)
	return cl
}

// exactConst folds a constant expression exactly (go/types rounds a value that is
// converted to float64, which would lose the rational 1/1000000000).
func (p *Pkg) exactConst(e ast.Expr) constant.Value {
	switch x := e.(type) {
	case *ast.ParenExpr:
		return p.exactConst(x.X)
	case *ast.BasicLit:
		return constant.MakeFromLiteral(x.Value, x.Kind, 0)
	case *ast.UnaryExpr:
		if v := p.exactConst(x.X); v != nil && (x.Op == token.SUB || x.Op == token.ADD) && v.Kind() != constant.Unknown {
			return constant.UnaryOp(x.Op, v, 0)
		}
	case *ast.BinaryExpr:
		a, b := p.exactConst(x.X), p.exactConst(x.Y)
		if a == nil || b == nil || a.Kind() == constant.Unknown || b.Kind() == constant.Unknown {
			break
		}
		numeric := func(v constant.Value) bool { return v.Kind() == constant.Int || v.Kind() == constant.Float }
		if !numeric(a) || !numeric(b) {
			break
		}
		switch x.Op {
		case token.ADD, token.SUB, token.MUL:
			return constant.BinaryOp(a, x.Op, b)
		case token.QUO:
			if constant.Sign(b) == 0 {
				break
			}
			if a.Kind() == constant.Int && b.Kind() == constant.Int {
				// integer division unless the checker says the operands are floats
				ta, tb := p.info.Types[x.X].Type, p.info.Types[x.Y].Type
				isInt := func(t types.Type) bool {
					bt, ok := t.Underlying().(*types.Basic)
					return ok && bt.Info()&types.IsInteger != 0
				}
				if ta != nil && tb != nil && isInt(ta) && isInt(tb) {
					return constant.BinaryOp(a, token.QUO_ASSIGN, b)
				}
			}
			return constant.BinaryOp(a, token.QUO, b)
		}
	}
	return p.constOf(e)
}

func ratOf(v constant.Value) (*big.Int, *big.Int) {
	if v == nil || (v.Kind() != constant.Int && v.Kind() != constant.Float) {
		return nil, nil
	}
	n, d := bigOf(constant.Num(v)), bigOf(constant.Denom(v))
	if n == nil || d == nil {
		return nil, nil
	}
	return n, d
}

func (p *Pkg) stmtTexts(fd *ast.FuncDecl) []string {
	var out []string
	if fd == nil || fd.Body == nil {
		return out
	}
	for _, s := range fd.Body.List {
		out = append(out, p.text(s))
	}
	return out
}

// closureCall recognises a body that builds and returns func(){ return callee(args) }.
func (p *Pkg) closureCall(fd *ast.FuncDecl) string {
	if fd == nil || fd.Body == nil {
		return "missing"
	}
	var lits []*ast.FuncLit
	ast.Inspect(fd.Body, func(n ast.Node) bool {
		if fl, ok := n.(*ast.FuncLit); ok {
			lits = append(lits, fl)
			return false
		}
		return true
	})
	other := "other:" + strings.Join(p.stmtTexts(fd), " ")
	if len(lits) != 1 || len(lits[0].Body.List) != 1 {
		return other
	}
	rs, ok := lits[0].Body.List[0].(*ast.ReturnStmt)
	if !ok || len(rs.Results) != 1 {
		return other
	}
	call, ok := unparen(rs.Results[0]).(*ast.CallExpr)
	if !ok {
		return other
	}
	// the literal must be what the function returns: directly, or through a local
	// that is assigned nothing else
	var holder types.Object
	okShape := true
	returns := 0
	ast.Inspect(fd.Body, func(n ast.Node) bool {
		switch s := n.(type) {
		case *ast.FuncLit:
			return false
		case *ast.AssignStmt:
			for i, l := range s.Lhs {
				id, isId := unparen(l).(*ast.Ident)
				if !isId || len(s.Lhs) != len(s.Rhs) {
					okShape = false
					continue
				}
				obj := p.info.Defs[id]
				if obj == nil {
					obj = p.info.Uses[id]
				}
				if unparen(s.Rhs[i]) == ast.Expr(lits[0]) {
					if holder != nil && holder != obj {
						okShape = false
					}
					holder = obj
				} else if holder != nil && obj == holder {
					okShape = false
				}
			}
		case *ast.ReturnStmt:
			returns++
			if len(s.Results) != 1 {
				okShape = false
				break
			}
			r := unparen(s.Results[0])
			if r == ast.Expr(lits[0]) {
				break
			}
			if id, isId := r.(*ast.Ident); isId && holder != nil && p.info.Uses[id] == holder {
				break
			}
			okShape = false
		}
		return true
	})
	if !okShape || returns != 1 {
		return other
	}
	// every statement must be a declaration, an assignment or the return
	for _, s := range fd.Body.List {
		switch s.(type) {
		case *ast.DeclStmt, *ast.AssignStmt, *ast.ReturnStmt:
		default:
			return other
		}
	}
	return "closure-calls:" + p.text(call)
}

func genSource(p *Pkg, cli *Pkg) string {
	var sb strings.Builder
	sb.WriteString(header)
	sb.WriteString("\n")
	scope := p.pkg.Scope()
	pkgConst := func(id *ast.Ident) *types.Const {
		c, _ := p.info.Defs[id].(*types.Const)
		if c == nil || c.Parent() != scope {
			return nil
		}
		return c
	}

	// src_consts
	var el []string
	p.eachSpec(token.CONST, func(id *ast.Ident, _ *ast.ValueSpec, _ int) {
		c := pkgConst(id)
		if c == nil || !strings.HasPrefix(id.Name, "ct") || c.Val().Kind() != constant.String {
			return
		}
		if b, ok := c.Type().Underlying().(*types.Basic); !ok || b.Info()&types.IsString == 0 {
			return
		}
		el = append(el, ctuple(cstr(id.Name), cstr(constant.StringVal(c.Val()))))
	})
	sb.WriteString(def("src_consts", "list (string * string)", clist(el)))

	// src_flags
	el = nil
	p.eachSpec(token.CONST, func(id *ast.Ident, _ *ast.ValueSpec, _ int) {
		c := pkgConst(id)
		if c == nil || namedTypeName(c.Type()) != "CTFlag" {
			return
		}
		el = append(el, ctuple(cstr(id.Name), cN(bigOf(c.Val()))))
	})
	sb.WriteString(def("src_flags", "list (string * N)", clist(el)))

	// src_flag_table
	el = nil
	if cl, ok := unparenOrNil(p.varInit("charTypeByFlag")).(*ast.CompositeLit); ok {
		type ent struct {
			k *big.Int
			v string
		}
		var ents []ent
		good := true
		if _, isMap := p.info.Types[cl].Type.Underlying().(*types.Map); !isMap {
			good = false
		}
		for _, e := range cl.Elts {
			kv, ok := e.(*ast.KeyValueExpr)
			if !ok {
				good = false
				break
			}
			k := bigOf(p.constOf(kv.Key))
			v, okv := p.constString(kv.Value)
			if k == nil || !okv {
				good = false
				break
			}
			ents = append(ents, ent{k, v})
		}
		if good {
			sort.SliceStable(ents, func(i, j int) bool { return ents[i].k.Cmp(ents[j].k) < 0 })
			for _, e := range ents {
				el = append(el, ctuple(cN(e.k), cstr(e.v)))
			}
		}
	}
	sb.WriteString(def("src_flag_table", "list (N * string)", clist(el)))

	// MaxTrials, MaxFailRate
	mt := "0%Z"
	if e := p.varInit("MaxTrials"); e != nil {
		if v := p.constOf(e); v != nil && v.Kind() == constant.Int {
			mt = cZ(bigOf(v))
		}
	}
	sb.WriteString(def("src_max_trials", "Z", mt))
	mfr := ctuple("0%Z", "0%Z")
	if e := p.varInit("MaxFailRate"); e != nil && p.constOf(e) != nil {
		if n, d := ratOf(p.exactConst(e)); n != nil {
			mfr = ctuple(cZ(n), cZ(d))
		}
	}
	sb.WriteString(def("src_max_fail_rate", "Z * Z", mfr))

	// constructors
	sb.WriteString(def("src_new_char_recipe", "list (string * string)", pairList(p.constructorFields(p.funcDecl("NewCharRecipe")))))
	sb.WriteString(def("src_new_wl_recipe", "list (string * string)", pairList(p.constructorFields(p.funcDecl("NewWLRecipe")))))

	// named string / integer constants
	var strEl, intEl []string
	p.eachSpec(token.CONST, func(id *ast.Ident, _ *ast.ValueSpec, _ int) {
		c := pkgConst(id)
		if c == nil {
			return
		}
		tn := namedTypeName(c.Type())
		if tn == "" || tn == "CTFlag" {
			return
		}
		if nt := c.Type().(*types.Named); nt.Obj().Pkg() != p.pkg {
			return
		}
		b, ok := c.Type().Underlying().(*types.Basic)
		if !ok {
			return
		}
		switch {
		case b.Info()&types.IsString != 0 && c.Val().Kind() == constant.String:
			strEl = append(strEl, ctuple(cstr(tn), cstr(id.Name), cstr(constant.StringVal(c.Val()))))
		case b.Info()&types.IsInteger != 0:
			if v := bigOf(c.Val()); v != nil && v.Sign() >= 0 {
				intEl = append(intEl, ctuple(cstr(tn), cstr(id.Name), cN(v)))
			}
		}
	})
	sb.WriteString(def("src_string_consts", "list (string * string * string)", clist(strEl)))
	sb.WriteString(def("src_int_consts", "list (string * string * N)", clist(intEl)))

	// presets
	el = nil
	p.eachSpec(token.VAR, func(id *ast.Ident, vs *ast.ValueSpec, idx int) {
		obj, _ := p.info.Defs[id].(*types.Var)
		if obj == nil || obj.Parent() != scope || namedTypeName(obj.Type()) != "SFFunction" {
			return
		}
		how, kv := "other", [][2]string{}
		var init ast.Expr
		if len(vs.Values) == len(vs.Names) {
			init = vs.Values[idx]
		}
		if init == nil {
			kv = [][2]string{{"src", ""}}
		} else {
			kv = [][2]string{{"src", p.text(init)}}
			e := unparen(init)
			// a conversion SFFunction(func...) is looked through
			if call, ok := e.(*ast.CallExpr); ok && len(call.Args) == 1 {
				if tv, ok := p.info.Types[call.Fun]; ok && tv.IsType() {
					e = unparen(call.Args[0])
				}
			}
			switch x := e.(type) {
			case *ast.CallExpr:
				if fid, ok := unparen(x.Fun).(*ast.Ident); ok && len(x.Args) == 1 {
					if fn, ok := p.info.Uses[fid].(*types.Func); ok && fn.Pkg() == p.pkg && fn.Name() == "NewSFFunction" {
						if cl, ok := unparen(x.Args[0]).(*ast.CompositeLit); ok && namedTypeName(p.info.Types[cl].Type) == "CharRecipe" {
							how, kv = "NewSFFunction", p.compositeFields(cl, nil)
						}
					}
				}
			case *ast.FuncLit:
				if len(x.Body.List) == 1 {
					if rs, ok := x.Body.List[0].(*ast.ReturnStmt); ok && len(rs.Results) > 0 {
						allConst := true
						var r [][2]string
						for i, res := range rs.Results {
							v := p.constOf(res)
							if v == nil {
								allConst = false
								break
							}
							d := "const:" + constDesc(v)
							if v.Kind() == constant.String {
								d = constant.StringVal(v)
							}
							r = append(r, [2]string{fmt.Sprintf("ret%d", i), d})
						}
						if allConst {
							how, kv = "func-literal-constant", r
						}
					}
				}
			}
		}
		el = append(el, ctuple(cstr(id.Name), cstr(how), pairList(kv)))
	})
	sb.WriteString(def("src_presets", "list (string * string * list (string * string))", clist(el)))

	// NewSFFunction, sfWrap
	sb.WriteString(def("src_new_sf_function", "string", cstr(p.closureCall(p.funcDecl("NewSFFunction")))))
	sb.WriteString(def("src_sf_wrap", "list string", clist(cstrs(p.stmtTexts(p.funcDecl("sfWrap"))))))

	// imports
	el = nil
	addImports := func(q *Pkg) {
		if q == nil {
			return
		}
		for _, f := range q.files {
			var imps []string
			for _, is := range f.Imports {
				if s, err := strconv.Unquote(is.Path.Value); err == nil {
					imps = append(imps, s)
				}
			}
			sort.Strings(imps)
			el = append(el, ctuple(cstr(q.name[f]), cinline(cstrs(imps))))
		}
	}
	addImports(p)
	addImports(cli)
	sb.WriteString(def("src_imports", "list (string * list string)", clist(el)))

	// methods, hashes
	type meth struct {
		t, m string
		ptr  bool
	}
	var ms []meth
	type fh struct{ n, h string }
	var hs []fh
	for _, f := range p.files {
		for _, d := range f.Decls {
			fd, ok := d.(*ast.FuncDecl)
			if !ok {
				continue
			}
			if fd.Recv != nil && len(fd.Recv.List) > 0 {
				ms = append(ms, meth{recvBase(fd.Recv.List[0].Type), fd.Name.Name, recvIsPtr(fd.Recv.List[0].Type)})
			}
			sum := sha256.Sum256([]byte(p.text(fd)))
			hs = append(hs, fh{funcName(fd), fmt.Sprintf("%x", sum)})
		}
	}
	sort.SliceStable(ms, func(i, j int) bool {
		if ms[i].t != ms[j].t {
			return ms[i].t < ms[j].t
		}
		return ms[i].m < ms[j].m
	})
	el = nil
	for _, m := range ms {
		el = append(el, ctuple(cstr(m.t), cstr(m.m), cbool(m.ptr), cbool(ast.IsExported(m.m))))
	}
	sb.WriteString(def("src_methods", "list (string * string * bool * bool)", clist(el)))
	sort.SliceStable(hs, func(i, j int) bool { return hs[i].n < hs[j].n })
	el = nil
	for _, h := range hs {
		el = append(el, ctuple(cstr(h.n), cstr(h.h)))
	}
	sb.WriteString(def("src_func_hashes", "list (string * string)", clist(el)))
	return sb.String()
}

func unparenOrNil(e ast.Expr) ast.Expr {
	if e == nil {
		return nil
	}
	return unparen(e)
}
