// spg2coq reads the current source of go.1password.io/spg (and cmd/opgen) and
// regenerates the Coq data files Source.v, Lists.v, OutputSites.v, Effects.v, Cli.v.
// Everything is read from the AST / go/types / go/constant; nothing is copied
// from a particular revision of the source.
package main

import (
	"bytes"
	"flag"
	"fmt"
	"go/ast"
	"go/build/constraint"
	"go/constant"
	"go/importer"
	"go/parser"
	"go/token"
	"go/types"
	"math/big"
	"os"
	"path/filepath"
	"runtime"
	"sort"
	"strings"
)

// Pkg is one parsed and type-checked package.
type Pkg struct {
	fset  *token.FileSet
	files []*ast.File          // sorted by file name
	name  map[*ast.File]string // display name (base name, or cmd/opgen/<base>)
	src   map[*ast.File][]byte // raw content
	info  *types.Info
	pkg   *types.Package
}

func fatal(format string, args ...interface{}) {
	fmt.Fprintf(os.Stderr, "spg2coq: "+format+"\n", args...)
	os.Exit(1)
}

// buildOK evaluates the file's build constraint for a build WITHOUT extra tags.
func buildOK(f *ast.File) bool {
	tagOK := func(tag string) bool {
		if tag == runtime.GOOS || tag == runtime.GOARCH || tag == "gc" {
			return true
		}
		if tag == "unix" && (runtime.GOOS == "linux" || runtime.GOOS == "darwin") {
			return true
		}
		if strings.HasPrefix(tag, "go1.") {
			return true
		}
		return false
	}
	var plus []constraint.Expr
	for _, cg := range f.Comments {
		if cg.Pos() >= f.Package {
			break
		}
		for _, c := range cg.List {
			line := c.Text
			if constraint.IsGoBuild(line) {
				if e, err := constraint.Parse(line); err == nil {
					return e.Eval(tagOK)
				}
			} else if constraint.IsPlusBuild(line) {
				if e, err := constraint.Parse(line); err == nil {
					plus = append(plus, e)
				}
			}
		}
	}
	for _, e := range plus {
		if !e.Eval(tagOK) {
			return false
		}
	}
	return true
}

func load(fset *token.FileSet, dir, prefix string, imp types.Importer) *Pkg {
	ents, err := os.ReadDir(dir)
	if err != nil {
		fatal("%v", err)
	}
	p := &Pkg{fset: fset, name: map[*ast.File]string{}, src: map[*ast.File][]byte{}}
	var names []string
	for _, e := range ents {
		n := e.Name()
		if e.IsDir() || !strings.HasSuffix(n, ".go") || strings.HasSuffix(n, "_test.go") ||
			strings.HasPrefix(n, ".") || strings.HasPrefix(n, "_") {
			continue
		}
		names = append(names, n)
	}
	sort.Strings(names)
	for _, n := range names {
		full := filepath.Join(dir, n)
		data, err := os.ReadFile(full)
		if err != nil {
			fatal("%v", err)
		}
		f, err := parser.ParseFile(fset, full, data, parser.ParseComments)
		if err != nil {
			fatal("parse error: %v", err)
		}
		if !buildOK(f) {
			continue
		}
		p.files = append(p.files, f)
		p.name[f] = prefix + n
		p.src[f] = data
	}
	p.info = &types.Info{
		Types:      map[ast.Expr]types.TypeAndValue{},
		Defs:       map[*ast.Ident]types.Object{},
		Uses:       map[*ast.Ident]types.Object{},
		Selections: map[*ast.SelectorExpr]*types.Selection{},
		Implicits:  map[ast.Node]types.Object{},
		Scopes:     map[ast.Node]*types.Scope{},
	}
	var firstErr error
	conf := types.Config{Importer: imp, Error: func(err error) {
		if firstErr == nil {
			firstErr = err
		}
	}}
	pkgPath := "main"
	if len(p.files) > 0 {
		pkgPath = p.files[0].Name.Name
	}
	p.pkg, _ = conf.Check(pkgPath, fset, p.files, p.info)
	if firstErr != nil {
		fatal("type error: %v", firstErr)
	}
	return p
}

// ---------------------------------------------------------------- helpers

func (p *Pkg) fileOf(pos token.Pos) *ast.File {
	for _, f := range p.files {
		if f.Pos() <= pos && pos <= f.End() {
			return f
		}
	}
	return nil
}

func (p *Pkg) fileName(pos token.Pos) string {
	if f := p.fileOf(pos); f != nil {
		return p.name[f]
	}
	return ""
}

func (p *Pkg) line(pos token.Pos) int { return p.fset.Position(pos).Line }

func collapse(s string) string { return strings.Join(strings.Fields(s), " ") }

// text is the source text of a node, comments removed, whitespace runs collapsed.
func (p *Pkg) text(n ast.Node) string {
	if n == nil {
		return ""
	}
	f := p.fileOf(n.Pos())
	if f == nil {
		return ""
	}
	tf := p.fset.File(n.Pos())
	data := p.src[f]
	a, b := tf.Offset(n.Pos()), tf.Offset(n.End())
	if a < 0 || b > len(data) || a > b {
		return ""
	}
	buf := append([]byte(nil), data[a:b]...)
	for _, cg := range f.Comments {
		for _, c := range cg.List {
			ca, cb := tf.Offset(c.Pos()), tf.Offset(c.End())
			if cb <= a || ca >= b {
				continue
			}
			for i := ca; i < cb; i++ {
				if i >= a && i < b {
					buf[i-a] = ' '
				}
			}
		}
	}
	return collapse(string(buf))
}

func unparen(e ast.Expr) ast.Expr {
	for {
		pe, ok := e.(*ast.ParenExpr)
		if !ok {
			return e
		}
		e = pe.X
	}
}

func (p *Pkg) constOf(e ast.Expr) constant.Value {
	if e == nil {
		return nil
	}
	if tv, ok := p.info.Types[e]; ok && tv.Value != nil {
		return tv.Value
	}
	return nil
}

func (p *Pkg) constString(e ast.Expr) (string, bool) {
	v := p.constOf(e)
	if v != nil && v.Kind() == constant.String {
		return constant.StringVal(v), true
	}
	return "", false
}

func bigOf(v constant.Value) *big.Int {
	if v == nil {
		return nil
	}
	v = constant.ToInt(v)
	if v.Kind() != constant.Int {
		return nil
	}
	b, ok := new(big.Int).SetString(v.ExactString(), 10)
	if !ok {
		return nil
	}
	return b
}

// constDesc renders a constant as it appears after "const:".
func constDesc(v constant.Value) string {
	switch v.Kind() {
	case constant.String:
		return constant.StringVal(v)
	case constant.Bool:
		return cbool(constant.BoolVal(v))
	case constant.Int:
		return v.ExactString()
	case constant.Float:
		if i := constant.ToInt(v); i.Kind() == constant.Int {
			return i.ExactString()
		}
		return v.ExactString()
	}
	return v.ExactString()
}

// funcName is "Type.Method" for methods and the plain name for functions.
func funcName(fd *ast.FuncDecl) string {
	if fd.Recv != nil && len(fd.Recv.List) > 0 {
		return recvBase(fd.Recv.List[0].Type) + "." + fd.Name.Name
	}
	return fd.Name.Name
}

func recvBase(e ast.Expr) string {
	for {
		switch t := e.(type) {
		case *ast.ParenExpr:
			e = t.X
		case *ast.StarExpr:
			e = t.X
		case *ast.IndexExpr:
			e = t.X
		case *ast.IndexListExpr:
			e = t.X
		case *ast.Ident:
			return t.Name
		default:
			return "?"
		}
	}
}

func recvIsPtr(e ast.Expr) bool {
	_, ok := unparen(e).(*ast.StarExpr)
	return ok
}

func (p *Pkg) funcDecl(name string) *ast.FuncDecl {
	for _, f := range p.files {
		for _, d := range f.Decls {
			if fd, ok := d.(*ast.FuncDecl); ok && fd.Recv == nil && fd.Name.Name == name {
				return fd
			}
		}
	}
	return nil
}

// varInit returns the initialiser expression of package-level variable name.
func (p *Pkg) varInit(name string) ast.Expr {
	for _, f := range p.files {
		for _, d := range f.Decls {
			gd, ok := d.(*ast.GenDecl)
			if !ok || gd.Tok != token.VAR {
				continue
			}
			for _, s := range gd.Specs {
				vs := s.(*ast.ValueSpec)
				for i, n := range vs.Names {
					if n.Name == name && len(vs.Values) == len(vs.Names) {
						return vs.Values[i]
					}
				}
			}
		}
	}
	return nil
}

// eachSpec calls fn for every name of every package-level const/var spec, in source order.
func (p *Pkg) eachSpec(tok token.Token, fn func(id *ast.Ident, vs *ast.ValueSpec, idx int)) {
	for _, f := range p.files {
		for _, d := range f.Decls {
			gd, ok := d.(*ast.GenDecl)
			if !ok || gd.Tok != tok {
				continue
			}
			for _, s := range gd.Specs {
				vs, ok := s.(*ast.ValueSpec)
				if !ok {
					continue
				}
				for i, n := range vs.Names {
					fn(n, vs, i)
				}
			}
		}
	}
}

func namedTypeName(t types.Type) string {
	if n, ok := t.(*types.Named); ok {
		return n.Obj().Name()
	}
	return ""
}

func writeIfChanged(path, content string) (bool, error) {
	old, err := os.ReadFile(path)
	if err == nil && bytes.Equal(old, []byte(content)) {
		return false, nil
	}
	return true, os.WriteFile(path, []byte(content), 0o644)
}

func setenvDefault(k, v string) {
	if os.Getenv(k) == "" {
		os.Setenv(k, v)
	}
}

func main() {
	repo := flag.String("repo", "/repo", "root of the spg source tree")
	out := flag.String("out", "/verif/coq/Gen", "output directory for the generated .v files")
	flag.Parse()

	absRepo, err := filepath.Abs(*repo)
	if err != nil {
		fatal("%v", err)
	}
	absOut, err := filepath.Abs(*out)
	if err != nil {
		fatal("%v", err)
	}
	// the source importer shells out to `go list`; keep it offline
	setenvDefault("GOFLAGS", "-mod=mod")
	setenvDefault("GOPROXY", "off")
	setenvDefault("GOSUMDB", "off")
	setenvDefault("GOTOOLCHAIN", "local")
	if err := os.Chdir(absRepo); err != nil {
		fatal("%v", err)
	}
	if err := os.MkdirAll(absOut, 0o755); err != nil {
		fatal("%v", err)
	}

	fset := token.NewFileSet()
	imp := importer.ForCompiler(fset, "source", nil)
	spg := load(fset, absRepo, "", imp)
	var cli *Pkg
	cliDir := filepath.Join(absRepo, "cmd", "opgen")
	if st, err := os.Stat(cliDir); err == nil && st.IsDir() {
		cli = load(fset, cliDir, "cmd/opgen/", imp)
	}

	outputs := []struct{ name, content string }{
		{"Source.v", genSource(spg, cli)},
		{"Lists.v", genLists(spg, absRepo)},
		{"OutputSites.v", genOutputSites(spg)},
		{"Effects.v", genEffects(spg)},
		{"Cli.v", genCli(cli)},
	}
	for _, o := range outputs {
		changed, err := writeIfChanged(filepath.Join(absOut, o.name), o.content)
		if err != nil {
			fatal("%v", err)
		}
		status := "unchanged"
		if changed {
			status = "written"
		}
		fmt.Printf("%s: %s (%d lines)\n", o.name, status, strings.Count(o.content, "\n"))
	}
}
