module spgrace

go 1.14

require (
	github.com/deckarep/golang-set v1.7.1
	go.1password.io/spg v0.0.0
)

replace go.1password.io/spg => /repo
