// spgrace: shares recipes, word lists and separator functions across goroutines
// (built with -race from the tree under test) and validates every result.
//
//	usage: spgrace <goroutines> <iterations> <seed>
//	output: one line "RESULT calls=<n> invalid=<k> first=<description>"; race reports go to stderr,
//	        and the race runtime makes the exit status 66 when it saw a race.
package main

import (
	"crypto/rand"
	"fmt"
	"math"
	"os"
	"strconv"
	"strings"
	"sync"
	"sync/atomic"

	"go.1password.io/spg"
)

type charCase struct {
	r       spg.CharRecipe
	alpha   string
	req     []string // each returned password must contain a character of each
	entropy float32
	sp      float32
}

type wlCase struct {
	r        *spg.WLRecipe
	words    map[string]bool // kept words and their title-cased forms
	sepOK    func(string) bool
	atoms    int
	entropy  float32
	entKnown bool
}

var invalid int64
var combos sync.Map // (shared object, method) pairs exercised

func mark(kind string, obj, method int) { combos.Store(fmt.Sprintf("%s%d.%d", kind, obj, method), true) }
var firstMu sync.Mutex
var first string

func bad(format string, args ...interface{}) {
	atomic.AddInt64(&invalid, 1)
	firstMu.Lock()
	if first == "" {
		first = fmt.Sprintf(format, args...)
	}
	firstMu.Unlock()
}

func sameF(a, b float32) bool {
	return a == b || (math.IsNaN(float64(a)) && math.IsNaN(float64(b)))
}

func digitsOnly(n int) func(string) bool {
	return func(s string) bool {
		if len(s) != n {
			return false
		}
		for _, c := range s {
			if c < '0' || c > '9' {
				return false
			}
		}
		return true
	}
}

// forcedReader is a goroutine-safe source that makes the rare paths common: every other 4-byte read is FF FF FF FF
// (rejected by every bound that is not a power of two), the others come from a fixed linear congruential sequence.
type forcedReader struct {
	mu    sync.Mutex
	state uint64
	n     uint64
}

func (f *forcedReader) Read(p []byte) (int, error) {
	f.mu.Lock()
	defer f.mu.Unlock()
	for i := 0; i+4 <= len(p); i += 4 {
		f.n++
		if f.n%2 == 0 {
			p[i], p[i+1], p[i+2], p[i+3] = 0xff, 0xff, 0xff, 0xff
			continue
		}
		f.state = f.state*6364136223846793005 + 1442695040888963407
		w := uint32(f.state >> 33)
		p[i], p[i+1], p[i+2], p[i+3] = byte(w>>24), byte(w>>16), byte(w>>8), byte(w)
	}
	return len(p), nil
}

func main() {
	g, _ := strconv.Atoi(os.Args[1])
	iters, _ := strconv.Atoi(os.Args[2])
	seed, _ := strconv.Atoi(os.Args[3])
	if len(os.Args) > 4 && os.Args[4] == "forced" {
		rand.Reader = &forcedReader{state: uint64(seed)*2654435761 + 1}
	}
	if len(os.Args) > 4 && os.Args[4] == "cold" {
		coldMain(g, iters, seed)
		return
	}

	// ---- shared character recipes; expectations computed before any sharing, on private copies
	recipes := []spg.CharRecipe{
		*spg.NewCharRecipe(12),
		{Length: 8, Allow: spg.Letters, Require: spg.Digits | spg.Symbols},
		{Length: 6, Allow: spg.Lowers, RequireSets: []string{"357", "xyz"}, Require: spg.Digits},
		{Length: 5, AllowChars: "aé€", RequireSets: []string{"é", "€b"}, Exclude: spg.Ambiguous},
		{Length: 10, Allow: spg.All, Require: spg.Uppers | spg.Lowers | spg.Digits, ExcludeChars: "abc"},
	}
	// the RequireSets of two shared recipes are prefixes of longer caller-owned tables (spare capacity behind them)
	table1 := []string{"357", "xyz", "caller-owned-1", "caller-owned-2"}
	table2 := []string{"é", "€b", "caller-owned-3"}
	recipes[2].RequireSets = table1[:2]
	recipes[3].RequireSets = table2[:2]
	reqOf := [][]string{nil, {"0123456789", "!@.-_*"}, {"357", "xyz", "0123456789"}, {"é", "€b"}, {"ABCDEFGHIJKLMNOPQRSTUVWXYZ", "defghijklmnopqrstuvwxyz", "0123456789"}}
	var chars []*charCase
	for i, r := range recipes {
		rc := r
		chars = append(chars, &charCase{r: r, alpha: rc.Alphabet(), req: reqOf[i], entropy: rc.Entropy(), sp: rc.SuccessProbability()})
	}

	// ---- shared word lists and wordlist recipes.  The lists are built here and handed to the goroutines COLD:
	// no method is called on them before they are shared.
	lists := [][]string{
		{"alpha", "beta", "gamma", "delta", "epsilon", "zeta", "eta", "theta"},
		{"polish", "Polish", "one", "two", "three", "4", "正確", "five"},
		{"o'neil", "jean-luc", "new york", "x", "y"},
	}
	seps := []struct {
		f  spg.SFFunction
		ok func(string) bool
		// entropy known in advance (constructed functions: computed on a private twin)
	}{
		{nil, func(s string) bool { return s == "-" }},
		{spg.SFDigits1, digitsOnly(1)},
		{spg.SFDigits2, digitsOnly(2)},
		{spg.SFNone, func(s string) bool { return s == "" }},
		{spg.SFDigitsSymbols, func(s string) bool { return len(s) == 1 && strings.ContainsAny(s, "0123456789!@.-_*") }},
		{spg.NewSFFunction(spg.CharRecipe{Length: 4, Allow: spg.Lowers, Require: spg.Digits | spg.Symbols}), func(s string) bool {
			return len(s) == 4 && strings.ContainsAny(s, "0123456789") && strings.ContainsAny(s, "!@.-_*")
		}},
		{spg.NewSFFunction(spg.CharRecipe{Length: 3, AllowChars: "ab", RequireSets: []string{"xy", "12"}}), func(s string) bool {
			return len(s) == 3 && strings.ContainsAny(s, "xy") && strings.ContainsAny(s, "12")
		}},
		// a constructed function whose recipe leaves Length unset: Generate refuses, the separator is empty
		{spg.NewSFFunction(spg.CharRecipe{Allow: spg.Digits}), func(s string) bool { return s == "" }},
	}
	schemes := []spg.CapScheme{spg.CSNone, spg.CSFirst, spg.CSAll, spg.CSRandom, spg.CSOne}
	var wls []*wlCase
	for li, l := range lists {
		wl, err := spg.NewWordList(l)
		if err != nil {
			panic(err)
		}
		words := map[string]bool{}
		for _, w := range l {
			words[w] = true
			words[strings.Title(w)] = true
		}
		for si, sp := range seps {
			r := spg.NewWLRecipe(3+(li+si+seed)%3, wl)
			if sp.f == nil {
				r.SeparatorChar = "-"
			} else {
				r.SeparatorFunc = sp.f
			}
			r.Capitalize = schemes[(li*3+si+seed)%len(schemes)]
			wls = append(wls, &wlCase{r: r, words: words, sepOK: sp.ok, atoms: r.Length})
		}
	}
	// expected wordlist entropies from TWIN recipes over separately constructed lists (the shared ones stay cold)
	for i, c := range wls {
		li := i / len(seps)
		twinList, _ := spg.NewWordList(lists[li])
		twin := *c.r
		tw := spg.NewWLRecipe(twin.Length, twinList)
		tw.SeparatorChar, tw.SeparatorFunc, tw.Capitalize = twin.SeparatorChar, twin.SeparatorFunc, twin.Capitalize
		// constructed separator functions are shared too, so the twin's entropy call is made on a private construction
		if i%len(seps) == 5 {
			tw.SeparatorFunc = spg.NewSFFunction(spg.CharRecipe{Length: 4, Allow: spg.Lowers, Require: spg.Digits | spg.Symbols})
		}
		if i%len(seps) == 6 {
			tw.SeparatorFunc = spg.NewSFFunction(spg.CharRecipe{Length: 3, AllowChars: "ab", RequireSets: []string{"xy", "12"}})
		}
		if i%len(seps) == 7 {
			tw.SeparatorFunc = spg.NewSFFunction(spg.CharRecipe{Allow: spg.Digits})
		}
		c.entropy = tw.Entropy()
		c.entKnown = true
	}

	var calls int64
	var wg sync.WaitGroup
	start := make(chan struct{})
	for t := 0; t < g; t++ {
		wg.Add(1)
		go func(t int) {
			defer wg.Done()
			<-start
			for k := 0; k < iters; k++ {
				n := t*7919 + k*104729 + seed
				c := chars[n%len(chars)]
				mark("c", n%len(chars), (n/3)%5)
				switch (n / 3) % 5 {
				case 0, 1:
					p, err := c.r.Generate()
					atomic.AddInt64(&calls, 1)
					if err != nil {
						bad("char Generate error %v", err)
						break
					}
					s := p.String()
					toks := p.Tokens()
					if len(toks) != c.r.Length {
						bad("char password %q has %d tokens, Length %d", s, len(toks), c.r.Length)
					}
					for _, tk := range toks {
						if !strings.Contains(c.alpha, tk.Value()) {
							bad("char password %q: %q not in alphabet %q", s, tk.Value(), c.alpha)
						}
					}
					for _, rq := range c.req {
						if !strings.ContainsAny(s, rq) {
							bad("char password %q misses required set %q", s, rq)
						}
					}
					if !sameF(p.Entropy, c.entropy) {
						bad("char password entropy %v, recipe entropy %v", p.Entropy, c.entropy)
					}
				case 2:
					if e := c.r.Entropy(); !sameF(e, c.entropy) {
						bad("char Entropy %v != %v", e, c.entropy)
					}
					atomic.AddInt64(&calls, 1)
				case 3:
					if a := c.r.Alphabet(); a != c.alpha {
						bad("Alphabet %q != %q", a, c.alpha)
					}
					atomic.AddInt64(&calls, 1)
				case 4:
					if s := c.r.SuccessProbability(); !sameF(s, c.sp) {
						bad("SuccessProbability %v != %v", s, c.sp)
					}
					atomic.AddInt64(&calls, 1)
				}
				w := wls[(n/5)%len(wls)]
				mark("w", (n/5)%len(wls), (n/7)%4)
				switch (n / 7) % 4 {
				case 0, 1:
					p, err := w.r.Generate()
					atomic.AddInt64(&calls, 1)
					if err != nil {
						bad("wordlist Generate error %v", err)
						break
					}
					atoms := p.Tokens().Atoms()
					if len(atoms) != w.atoms {
						bad("wordlist password %q has %d atoms, Length %d", p.String(), len(atoms), w.atoms)
					}
					for _, a := range atoms {
						if !w.words[a] {
							bad("wordlist password %q: atom %q is not a word of the list", p.String(), a)
						}
					}
					sp := p.Tokens().Separators()
					for _, sv := range sp {
						if !w.sepOK(sv) {
							bad("wordlist password %q: separator %q is not one its separator function can return", p.String(), sv)
						}
					}
					if w.sepOK("") == false && len(sp) != w.atoms-1 {
						bad("wordlist password %q: %d separators for %d atoms", p.String(), len(sp), w.atoms)
					}
					if w.entKnown && !sameF(p.Entropy, w.entropy) {
						bad("wordlist password entropy %v, recipe entropy %v (%d words, %s)", p.Entropy, w.entropy, w.r.Length, w.r.Capitalize)
					}
				case 2:
					if e := w.r.Entropy(); w.entKnown && !sameF(e, w.entropy) {
						bad("wordlist Entropy %v != %v (%d words, %s)", e, w.entropy, w.r.Length, w.r.Capitalize)
					}
					atomic.AddInt64(&calls, 1)
				case 3:
					_ = w.r.Size()
					atomic.AddInt64(&calls, 1)
				}
				// the package-level presets and a constructed function, called directly
				mark("s", 1+(n%7), 0)
				sv, _ := seps[1+(n%7)].f()
				if !seps[1+(n%7)].ok(sv) {
					bad("separator function %d returned %q", 1+(n%7), sv)
				}
				atomic.AddInt64(&calls, 1)
			}
		}(t)
	}
	close(start)
	wg.Wait()
	if table1[2] != "caller-owned-1" || table1[3] != "caller-owned-2" || table2[2] != "caller-owned-3" {
		bad("a call wrote into the caller's table beyond the length of RequireSets: %q %q", table1, table2)
	}
	nc := 0
	combos.Range(func(k, v interface{}) bool { nc++; return true })
	fmt.Printf("RESULT calls=%d combos=%d invalid=%d first=%s\n", calls, nc, invalid, strconv.Quote(first))
}

// coldMain: the goroutines make the FIRST calls of the process.  Nothing of the library is touched before they
// start (no expectation is computed in advance), so anything the package initialises lazily is initialised
// concurrently.  The deterministic methods must give every goroutine the same answer; passwords are validated
// against the first Alphabet() answer recorded for their recipe.
func coldMain(g, iters, seed int) {
	recipes := []spg.CharRecipe{
		{Length: 8, Allow: spg.Letters, Require: spg.Ambiguous},
		{Length: 9, Allow: spg.All, Require: spg.Digits | spg.Ambiguous},
		{Length: 6, Allow: spg.Lowers, Require: spg.Uppers | spg.Symbols},
		{Length: 7, Allow: spg.Digits, RequireSets: []string{"xyz"}, Exclude: spg.Ambiguous, ExcludeChars: "x"},
		{Length: 5, Allow: spg.Symbols | spg.Ambiguous},
		{Length: 24, Allow: spg.Lowers, RequireSets: []string{"abcd", "efgh", "ijkl", "mnop", "qrst", "uvwx"}},
		{Length: 8, Allow: spg.Digits | spg.Lowers},
		{Length: 8, Allow: spg.Digits | spg.Lowers, Exclude: spg.Ambiguous},
	}
	words := []string{"alpha", "beta", "Beta", "gamma", "4", "o'neil"}
	var answers sync.Map
	agree := func(key, val string) {
		if prev, loaded := answers.LoadOrStore(key, val); loaded && prev.(string) != val {
			bad("%s gave %q to one goroutine and %q to another", key, prev, val)
		}
	}
	var calls int64
	var wg sync.WaitGroup
	start := make(chan struct{})
	for t := 0; t < g; t++ {
		wg.Add(1)
		go func(t int) {
			defer wg.Done()
			<-start
			for k := 0; k < iters; k++ {
				n := t*7919 + k*104729 + seed
				ri := (n + t) % len(recipes)
				r := recipes[ri] // each call works on its own copy of the value
				mark("cold", ri, (n/5)%6)
				switch (n / 5) % 6 {
				case 0:
					p, err := r.Generate()
					if err != nil {
						bad("cold char Generate error %v", err)
					} else if len(p.Tokens()) != r.Length {
						bad("cold char password %q has %d tokens, Length %d", p.String(), len(p.Tokens()), r.Length)
					} else {
						a := r.Alphabet()
						for _, tk := range p.Tokens() {
							if !strings.Contains(a, tk.Value()) {
								bad("cold char password %q: %q not in alphabet %q", p.String(), tk.Value(), a)
							}
						}
					}
				case 1:
					agree(fmt.Sprintf("recipe %d Alphabet()", ri), r.Alphabet())
				case 2:
					agree(fmt.Sprintf("recipe %d Entropy()", ri), fmt.Sprint(math.Float32bits(r.Entropy())))
				case 3:
					agree(fmt.Sprintf("recipe %d SuccessProbability()", ri), fmt.Sprint(math.Float32bits(r.SuccessProbability())))
				case 4:
					wl, err := spg.NewWordList(words) // the caller's slice is shared read-only
					if err != nil {
						bad("cold NewWordList error %v", err)
						break
					}
					agree("NewWordList size", fmt.Sprint(wl.Size()))
					wr := spg.NewWLRecipe(3, wl)
					wr.Capitalize = []spg.CapScheme{spg.CSRandom, spg.CSOne, spg.CSAll}[n%3]
					wr.SeparatorFunc = []spg.SFFunction{spg.SFDigits1, spg.SFSymbols, spg.SFDigitsNoAmbiguous2}[(n/3)%3]
					agree(fmt.Sprintf("wordlist recipe %d/%d Entropy()", n%3, (n/3)%3), fmt.Sprint(math.Float32bits(wr.Entropy())))
					if p, err := wr.Generate(); err != nil || len(p.Tokens().Atoms()) != 3 {
						bad("cold wordlist Generate: %v", err)
					}
				case 5:
					sv, _ := []spg.SFFunction{spg.SFDigits2, spg.SFDigitsSymbols, spg.SFNone}[n%3]()
					if len(sv) != []int{2, 1, 0}[n%3] {
						bad("cold preset %d returned %q", n%3, sv)
					}
				}
				atomic.AddInt64(&calls, 1)
			}
		}(t)
	}
	close(start)
	wg.Wait()
	nc := 0
	combos.Range(func(k, v interface{}) bool { nc++; return true })
	fmt.Printf("RESULT calls=%d combos=%d invalid=%d first=%s\n", calls, nc, invalid, strconv.Quote(first))
}
