// spgdrive runs the real implementation (built from /repo with -tags verif) on
// line-oriented cases, the same lines the extracted Coq model consumes, and
// prints one result line per case in the same format.
//
//	input : <id> <family> <args...>
//	output: <id> <result...> stdout=<hex> stderr=<hex>
package main

import (
	"bufio"
	"crypto/rand"
	"encoding/hex"
	"errors"
	"fmt"
	"io"
	"io/fs"
	"log"
	"os"
	"runtime"
	"strconv"
	"strings"
	"syscall"
	"time"
)

// ---------- scripted crypto/rand.Reader ----------

type chunk struct {
	bs   []byte
	fail bool
}

type scripted struct {
	chunks   []chunk
	consumed int
	reads    int
}

var errScript = errors.New("scripted read failure")

// tempErr is the kind of error a retrying wrapper would be tempted to swallow
type tempErr struct{}

func (tempErr) Error() string   { return "scripted temporary failure" }
func (tempErr) Temporary() bool { return true }
func (tempErr) Timeout() bool   { return true }

// the error value of a scripted failure varies with the position in the stream: a failed read is a failed
// read whatever the error says about itself (plain, EOF, temporary, interrupted, timeout, wrapped)
var faultErrs = []error{errScript, io.EOF, syscall.EAGAIN, io.ErrUnexpectedEOF, syscall.EINTR, tempErr{},
	&fs.PathError{Op: "read", Path: "/dev/urandom", Err: syscall.EAGAIN}, os.ErrDeadlineExceeded}

func (s *scripted) faultErr() error { return faultErrs[(s.consumed+s.reads)%len(faultErrs)] }

func (s *scripted) Read(p []byte) (int, error) {
	s.reads++
	if len(s.chunks) == 0 {
		return 0, s.faultErr()
	}
	c := &s.chunks[0]
	m := len(p)
	if len(c.bs) < m {
		m = len(c.bs)
	}
	copy(p, c.bs[:m])
	c.bs = c.bs[m:]
	s.consumed += m
	if len(c.bs) == 0 {
		fail := c.fail
		s.chunks = s.chunks[1:]
		if fail {
			return m, s.faultErr()
		}
	}
	return m, nil
}

var tape *scripted
var osReader io.Reader

// caseID is the label of the case being run; a label ending in '+' asks families that build shared objects
// (word lists) to use them for other recipes first, as a program sharing one list would
var caseID string

func install(src []chunk) {
	tape = &scripted{chunks: src}
	rand.Reader = tape
}

// ---------- case tokens ----------

type toks struct {
	rest []string
}

func (t *toks) next() string {
	if len(t.rest) == 0 {
		panic("harness: unexpected end of case")
	}
	x := t.rest[0]
	t.rest = t.rest[1:]
	return x
}
func (t *toks) int() int {
	v, err := strconv.Atoi(t.next())
	if err != nil {
		panic("harness: bad int: " + err.Error())
	}
	return v
}
func (t *toks) u64() uint64 {
	v, err := strconv.ParseUint(t.next(), 10, 64)
	if err != nil {
		panic("harness: bad uint: " + err.Error())
	}
	return v
}
func (t *toks) bytes() []byte {
	s := t.next()
	if s == "-" {
		return []byte{}
	}
	b, err := hex.DecodeString(s)
	if err != nil {
		panic("harness: bad hex: " + err.Error())
	}
	return b
}
func (t *toks) str() string { return string(t.bytes()) }
func (t *toks) bool() bool  { return t.next() == "1" }
func (t *toks) strs() []string {
	k := t.int()
	out := make([]string, k)
	for i := range out {
		out[i] = t.str()
	}
	return out
}
func (t *toks) source() []chunk {
	k := t.int()
	out := make([]chunk, k)
	for i := range out {
		out[i].bs = t.bytes()
		out[i].fail = t.bool()
	}
	return out
}

func hx(b []byte) string {
	if len(b) == 0 {
		return "-"
	}
	return hex.EncodeToString(b)
}
func hxs(s string) string { return hx([]byte(s)) }

// ---------- fd capture ----------

var capOut, capErr *os.File
var realOut *os.File

func setupCapture(dir string) {
	var err error
	// keep the real stdout for results
	fd, err := syscall.Dup(1)
	if err != nil {
		panic(err)
	}
	realOut = os.NewFile(uintptr(fd), "realstdout")
	capOut, err = os.Create(dir + "/cap.out")
	if err != nil {
		panic(err)
	}
	capErr, err = os.Create(dir + "/cap.err")
	if err != nil {
		panic(err)
	}
	if err := syscall.Dup2(int(capOut.Fd()), 1); err != nil {
		panic(err)
	}
	if err := syscall.Dup2(int(capErr.Fd()), 2); err != nil {
		panic(err)
	}
	log.SetFlags(0) // no timestamps in the process log
}

func drain(f *os.File) []byte {
	st, err := f.Stat()
	if err != nil || st.Size() == 0 {
		return nil
	}
	buf := make([]byte, st.Size())
	_, _ = f.ReadAt(buf, 0)
	_ = f.Truncate(0)
	_, _ = f.Seek(0, 0)
	return buf
}

// ---------- panic classification ----------

func classify(r interface{}) string {
	var msg string
	defer func() { panicMessage = msg }()
	switch v := r.(type) {
	case runtime.Error:
		msg = v.Error()
	case error:
		msg = v.Error()
	case string:
		msg = v
	default:
		msg = fmt.Sprint(v)
	}
	switch {
	case strings.HasPrefix(msg, "harness:"):
		return "HARNESS-FAILURE " + msg
	case strings.HasPrefix(msg, "PRNG gen error"):
		return "panic prng"
	case strings.Contains(msg, "randomUint32n called with 0"):
		return "panic zero"
	case strings.Contains(msg, "index out of range") || strings.Contains(msg, "slice bounds out of range"):
		return "panic index"
	case strings.Contains(msg, "nil pointer dereference"):
		return "panic nil"
	}
	return "panic other:" + hxs(msg)
}

// panicPrefix is prepended to the result when the case panics (context the case already established).
var panicPrefix string

// panicMessage keeps the text of a recovered panic: it is what an uncaught panic would print on standard error.
var panicMessage string

// run executes f, converting a panic into a result string.
func run(f func() string) (res string) {
	panicPrefix = ""
	defer func() {
		if r := recover(); r != nil {
			res = panicPrefix + classify(r)
			if tape != nil {
				res += fmt.Sprintf(" consumed=%d", tape.consumed)
			}
		}
	}()
	return f()
}

type family func(t *toks) string

var families = map[string]family{}

func main() {
	osReader = rand.Reader
	dir, err := os.MkdirTemp("", "spgdrive")
	if err != nil {
		panic(err)
	}
	defer os.RemoveAll(dir)
	setupCapture(dir)
	in := bufio.NewReaderSize(os.Stdin, 1<<20)
	out := bufio.NewWriterSize(realOut, 1<<20)
	defer out.Flush()
	lastFlush := time.Now()
	for {
		line, err := in.ReadString('\n')
		line = strings.TrimRight(line, "\n")
		if line != "" {
			t := &toks{rest: strings.Split(line, " ")}
			id := t.next()
			caseID = id
			fam := t.next()
			f, ok := families[fam]
			var res string
			if !ok {
				res = "HARNESS-FAILURE unknown family " + fam
			} else {
				tape = nil
				panicMessage = ""
				rand.Reader = osReader
				guards = guards[:0]
				res = run(func() string { return f(t) })
				if !guardsIntact() {
					res += " BEYOND-LEN-CHANGED"
				}
			}
			so := drain(capOut)
			se := drain(capErr)
			if panicMessage != "" {
				fmt.Fprintf(out, "%s %s stdout=%s stderr=%s pmsg=%s\n", id, res, hx(so), hx(se), hxs(panicMessage))
			} else {
				fmt.Fprintf(out, "%s %s stdout=%s stderr=%s\n", id, res, hx(so), hx(se))
			}
			if time.Since(lastFlush) > 200*time.Millisecond {
				// if the code under test hangs on a later case, the results so far are not lost
				out.Flush()
				lastFlush = time.Now()
			}
		}
		if err != nil {
			break
		}
	}
}
