package main

import (
	"crypto/rand"
	"crypto/sha256"
	"fmt"
	"strings"

	"go.1password.io/spg"
)

func init() {
	// sepcall <sep> <budget> <source>: one call of a separator function (presets included)
	//   -> ok <value> ent=F:<bits> consumed=<bytes>
	families["sepcall"] = func(t *toks) string {
		r := &spg.WLRecipe{}
		t.sepArg(r)
		t.budget()
		install(t.source())
		var v string
		var e spg.FloatE
		if r.SeparatorFunc == nil {
			v, e = r.SeparatorChar, 0
		} else {
			v, e = r.SeparatorFunc()
		}
		return fmt.Sprintf("ok %s ent=%s consumed=%d", hxs(v), f32(float32(e)), tape.consumed)
	}
	// builtin: everything C16 documents, read through the public API of the built package
	families["builtin"] = func(t *toks) string {
		parts := []string{}
		if len(t.rest) > 0 && t.next() == "used" {
			// the built-ins of a process that has already used the package for other things (recipes with exclusions of
			// their own, custom sets, word lists, every preset): they are constants, not a state
			saved, savedReader := tape, rand.Reader
			for _, r := range []spg.CharRecipe{
				{Length: 6, Allow: spg.All, Exclude: spg.Ambiguous, ExcludeChars: "aeiouAEIOU"},
				{Length: 6, Allow: spg.Letters, Require: spg.Digits | spg.Symbols, Exclude: spg.Symbols, ExcludeChars: "0123"},
				{Length: 4, AllowChars: "xyz", RequireSets: []string{"!@", "ab"}, Exclude: spg.Lowers | spg.Uppers | spg.Digits, ExcludeChars: "*_"},
				*spg.NewCharRecipe(9),
			} {
				rr := r
				install([]chunk{{bs: make([]byte, 4096)}})
				_, _ = rr.Generate()
				_ = rr.Alphabet()
				_ = rr.Entropy()
				_ = rr.SuccessProbability()
			}
			if wl, err := spg.NewWordList([]string{"polish", "Polish", "x", "4"}); err == nil {
				for _, sf := range []spg.SFFunction{spg.SFDigits1, spg.SFDigits2, spg.SFDigitsNoAmbiguous1, spg.SFDigitsNoAmbiguous2, spg.SFSymbols, spg.SFDigitsSymbols, spg.SFNone} {
					install([]chunk{{bs: make([]byte, 4096)}})
					wr := spg.NewWLRecipe(3, wl)
					wr.SeparatorFunc, wr.Capitalize = sf, spg.CSRandom
					_, _ = wr.Generate()
					_ = wr.Entropy()
				}
			}
			// a constructed separator whose every attempt fails on this stream (no digit ever comes up)
			install([]chunk{{bs: make([]byte, 1<<16)}})
			_, _ = spg.NewSFFunction(spg.CharRecipe{Length: 2, Allow: spg.Letters, Require: spg.Digits})()
			tape, rand.Reader = saved, savedReader
			drain(capOut)
			drain(capErr)
		}
		for _, f := range []spg.CTFlag{spg.Uppers, spg.Lowers, spg.Digits, spg.Symbols, spg.Ambiguous, spg.Letters, spg.All, spg.None} {
			one := spg.CharRecipe{Length: 1, Allow: f} // a variable, so that the call compiles whatever the receiver kind
			parts = append(parts, fmt.Sprintf("class%d=%s", uint32(f), hxs(one.Alphabet())))
		}
		for _, f := range []spg.CTFlag{spg.Uppers, spg.Lowers, spg.Digits, spg.Symbols, spg.Ambiguous} {
			one := spg.CharRecipe{Length: 1, Allow: spg.All, Exclude: f}
			parts = append(parts, fmt.Sprintf("allminus%d=%s", uint32(f), hxs(one.Alphabet())))
		}
		parts = append(parts, fmt.Sprintf("newcharalphabet=%s", hxs(spg.NewCharRecipe(11).Alphabet())))
		for _, f := range []spg.CTFlag{spg.Uppers, spg.Lowers, spg.Digits, spg.Symbols, spg.Ambiguous} {
			one := spg.CharRecipe{Length: 1, Require: f}
			parts = append(parts, fmt.Sprintf("require%d=%s", uint32(f), hxs(one.Alphabet())))
		}
		for _, n := range []int{0, -3} {
			z := spg.NewCharRecipe(n)
			parts = append(parts, fmt.Sprintf("newchar_len%d=%d,%d,%d,%d,%s", n, z.Length, uint32(z.Allow), uint32(z.Require), uint32(z.Exclude), hxs(z.Alphabet())))
		}
		parts = append(parts, fmt.Sprintf("flags=%d,%d,%d,%d,%d,%d,%d,%d", uint32(spg.Uppers), uint32(spg.Lowers), uint32(spg.Digits), uint32(spg.Symbols),
			uint32(spg.Ambiguous), uint32(spg.Letters), uint32(spg.All), uint32(spg.None)))
		cr := spg.NewCharRecipe(17)
		parts = append(parts, fmt.Sprintf("newchar=%d,%d,%d,%d,%s,%d,%s", cr.Length, uint32(cr.Allow), uint32(cr.Require), uint32(cr.Exclude),
			hxs(cr.AllowChars), len(cr.RequireSets), hxs(cr.ExcludeChars)))
		// the constructors hand out fresh values: what a caller does with one result shows in no other
		cr.Length, cr.Allow, cr.Require, cr.Exclude = 3, spg.Digits, spg.Symbols, 0
		cr.AllowChars, cr.RequireSets, cr.ExcludeChars = "xyz", []string{"ab"}, "q"
		cr2 := spg.NewCharRecipe(9)
		parts = append(parts, fmt.Sprintf("newchar2=%d,%d,%d,%d,%s,%d,%s,first=%d", cr2.Length, uint32(cr2.Allow), uint32(cr2.Require), uint32(cr2.Exclude),
			hxs(cr2.AllowChars), len(cr2.RequireSets), hxs(cr2.ExcludeChars), cr.Length))
		wl, err := spg.NewWordList([]string{"x", "y"})
		if err != nil {
			panic("harness: builtin: " + err.Error())
		}
		wr := spg.NewWLRecipe(5, wl)
		parts = append(parts, fmt.Sprintf("newwl=%d,%s,%s,%t,%d", wr.Length, hxs(string(wr.Capitalize)), hxs(wr.SeparatorChar), wr.SeparatorFunc == nil, wr.Size()))
		wr.Length, wr.Capitalize, wr.SeparatorChar, wr.SeparatorFunc = 2, spg.CSAll, "+", spg.SFDigits1
		wr2 := spg.NewWLRecipe(4, wl)
		parts = append(parts, fmt.Sprintf("newwl2=%d,%s,%s,%t,%d,first=%d", wr2.Length, hxs(string(wr2.Capitalize)), hxs(wr2.SeparatorChar), wr2.SeparatorFunc == nil, wr2.Size(), wr.Length))
		parts = append(parts, fmt.Sprintf("budget=%d,%s", spg.MaxTrials, fmt.Sprintf("%.17g", spg.MaxFailRate)))
		parts = append(parts, fmt.Sprintf("caps=%s,%s,%s,%s,%s", spg.CSNone, spg.CSFirst, spg.CSAll, spg.CSRandom, spg.CSOne))
		parts = append(parts, fmt.Sprintf("types=%d,%d kinds=%d,%d,%d,%d", spg.SeparatorType, spg.AtomType,
			spg.CharacterIndexKind, spg.VarAtomsIndexKind, spg.AlternatingIndexKind, spg.FullIndexKind))
		for _, l := range []struct {
			name string
			ws   []string
		}{{"agilewords", spg.AgileWords}, {"agilesyllables", spg.AgileSyllables}} {
			h := sha256.Sum256([]byte(strings.Join(l.ws, "\n") + "\n"))
			parts = append(parts, fmt.Sprintf("%s=%d,%x", l.name, len(l.ws), h))
		}
		// ... and the same again after the exported slices have been handed to NewWordList (as opgen does with them) and a
		// password has been generated from the result: the shipped data is still the shipped data, entry by entry
		for _, l := range []struct {
			name string
			ws   *[]string
		}{{"agilewords", &spg.AgileWords}, {"agilesyllables", &spg.AgileSyllables}} {
			if wl, err := spg.NewWordList(*l.ws); err == nil {
				_, _ = spg.NewWLRecipe(3, wl).Generate()
			}
			drain(capOut)
			drain(capErr)
			h := sha256.Sum256([]byte(strings.Join(*l.ws, "\n") + "\n"))
			parts = append(parts, fmt.Sprintf("%s_after_use=%d,%x", l.name, len(*l.ws), h))
		}
		return "ok " + strings.Join(parts, " ")
	}
}
