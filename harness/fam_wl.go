package main

import (
	"crypto/rand"
	"fmt"
	"strings"

	"go.1password.io/spg"
)

// readOrder reads the words of a constructed list, in the order of its internal slice,
// through the public API only: one-word passwords for every index with a scripted tape.
func readOrder(wl *spg.WordList) []string {
	n := int(wl.Size())
	out := make([]string, n)
	saved := tape
	for i := 0; i < n; i++ {
		b := []byte{byte(i >> 24), byte(i >> 16), byte(i >> 8), byte(i)}
		install([]chunk{{bs: b}})
		p, err := spg.NewWLRecipe(1, wl).Generate()
		if err != nil {
			panic("harness: readOrder: " + err.Error())
		}
		out[i] = p.String()
	}
	tape = saved
	return out
}

// checkCapitalised generates the one-word password for every index again with the scheme "all": the atom must be the
// title-cased form (strings.Title, computed here) of the word that index selects.  Returns "" or a description.
func checkCapitalised(wl *spg.WordList, order []string) string {
	saved := tape
	defer func() { tape = saved }()
	for i, w := range order {
		b := []byte{byte(i >> 24), byte(i >> 16), byte(i >> 8), byte(i)}
		install([]chunk{{bs: b}})
		r := spg.NewWLRecipe(1, wl)
		r.Capitalize = spg.CSAll
		p, err := r.Generate()
		if err != nil {
			return "error:" + hxs(err.Error())
		}
		if want := strings.Title(w); p.String() != want {
			return hxs(w) + ":" + hxs(p.String())
		}
	}
	return ""
}

func showStrs(ss []string) string {
	if len(ss) == 0 {
		return "0"
	}
	parts := make([]string, len(ss))
	for i, s := range ss {
		parts[i] = hxs(s)
	}
	return fmt.Sprintf("%d,%s", len(ss), strings.Join(parts, ","))
}

func titleGraph(ws []string) string {
	seen := map[string]bool{}
	parts := []string{}
	for _, w := range ws {
		if seen[w] {
			continue
		}
		seen[w] = true
		t := strings.Title(w)
		if t != w {
			parts = append(parts, hxs(w)+">"+hxs(t))
		}
		// idempotence of strings.Title is the one assumption of the proofs: re-checked on every word used
		if strings.Title(t) != t {
			panic("harness: strings.Title is not idempotent on " + w)
		}
	}
	if len(parts) == 0 {
		return "0"
	}
	return fmt.Sprintf("%d,%s", len(parts), strings.Join(parts, ","))
}

// warmList uses a freshly constructed list for other recipes first (both short lengths, every scheme, a
// constant separator, zero tape): a *WordList is shared by many recipes in a real program, and what one
// recipe did with it must not show in the next.
func warmList(wl *spg.WordList) {
	if wl == nil || wl.Size() == 0 {
		return
	}
	saved, savedReader := tape, rand.Reader
	for _, L := range []int{1, 2} {
		for _, cs := range []spg.CapScheme{spg.CSAll, spg.CSOne, spg.CSRandom, spg.CSFirst, spg.CSNone, "All"} {
			install([]chunk{{bs: make([]byte, 256)}})
			r := spg.NewWLRecipe(L, wl)
			r.Capitalize = cs
			r.SeparatorChar = "."
			_, _ = r.Generate()
			_ = r.Entropy()
		}
	}
	tape, rand.Reader = saved, savedReader
	drain(capOut)
	drain(capErr)
}

// callerBuffer hands the words over in a buffer that the harness, like a caller reading lists in a loop, reuses
// for every construction (same backing array, often the same length); scribble overwrites it afterwards: the
// list must neither remember the buffer nor share it.
var wlBuf []string

func callerBuffer(list []string) []string {
	if list == nil {
		return nil
	}
	wlBuf = append(wlBuf[:0], list...)
	return wlBuf
}

func scribble(list []string) {
	for i := range list {
		list[i] = "\x00overwritten-by-the-caller"
	}
}

var presets = map[string]spg.SFFunction{
	"SFNone": spg.SFNone, "SFDigits1": spg.SFDigits1, "SFDigits2": spg.SFDigits2,
	"SFDigitsNoAmbiguous1": spg.SFDigitsNoAmbiguous1, "SFDigitsNoAmbiguous2": spg.SFDigitsNoAmbiguous2,
	"SFSymbols": spg.SFSymbols, "SFDigitsSymbols": spg.SFDigitsSymbols,
}

// wordsArg: "nil" | "zero" | "agilewords" | "agilesyllables" | <k> <word>...
func (t *toks) wordsArg() (list []string, kind string) {
	k := t.next()
	switch k {
	case "nil", "zero":
		return nil, k
	case "agilewords":
		return spg.AgileWords, "list"
	case "agilesyllables":
		return spg.AgileSyllables, "list"
	case "synth":
		// a synthetic list of n distinct words (sizes beyond 2^16 without megabyte-long case lines)
		n := t.int()
		l := make([]string, n)
		for i := range l {
			l[i] = fmt.Sprintf("w%05d", i)
		}
		return l, "list"
	}
	t.rest = append([]string{k}, t.rest...)
	return t.strs(), "list"
}

func (t *toks) sepArg(r *spg.WLRecipe) {
	switch k := t.next(); k {
	case "char":
		r.SeparatorChar = t.str()
	case "both":
		// both fields set: SeparatorChar first, then the function
		r.SeparatorChar = t.str()
		t.sepArg(r)
	case "const":
		v := t.str()
		r.SeparatorFunc = func() (string, spg.FloatE) { return v, 0 }
	case "preset":
		r.SeparatorFunc = presets[t.next()]
	case "recipe":
		r.SeparatorFunc = spg.NewSFFunction(t.recipe())
	default:
		panic("harness: bad separator kind " + k)
	}
}

func init() {
	// wordlist <words>: construct; report size, emission order, title graph, whether the caller's slice changed
	families["wordlist"] = func(t *toks) string {
		list, _ := t.wordsArg()
		list = callerBuffer(list)
		before := append([]string(nil), list...)
		wl, err := spg.NewWordList(list)
		same := len(before) == len(list)
		for i := range before {
			if i < len(list) && before[i] != list[i] {
				same = false
			}
		}
		sl := "same"
		if !same {
			sl = "CHANGED"
		}
		if err != nil {
			s := "err " + errKind(err)
			if wl != nil {
				s += " LIST-WITH-ERROR"
			}
			return s + " slice=" + sl
		}
		scribble(list)
		order := readOrder(wl)
		if bad := checkCapitalised(wl, order); bad != "" {
			sl += " GENERATED-ATOM-IS-NOT-THE-TITLE-FORM:" + bad
		}
		return fmt.Sprintf("ok size=%d words=%s titles=%s slice=%s", wl.Size(), showStrs(order), titleGraph(before), sl)
	}
	// wlgen <words> <length> <sep> <cap> <budget> <source>
	families["wlgen"] = func(t *toks) string {
		list, kind := t.wordsArg()
		var wl *spg.WordList
		pre := ""
		switch kind {
		case "nil":
			wl = nil
		case "zero":
			wl = &spg.WordList{}
		default:
			var err error
			orig := list
			list = callerBuffer(list)
			wl, err = spg.NewWordList(list)
			if err != nil {
				return "err " + errKind(err) + " atconstruction"
			}
			scribble(list)
			list = orig
			drain(capOut) // the construction notice is the wordlist family's business
			drain(capErr)
			pre = fmt.Sprintf("order=%s titles=%s ", showStrs(readOrder(wl)), titleGraph(list))
			if strings.HasSuffix(caseID, "+") {
				warmList(wl)
			}
		}
		panicPrefix = pre
		r := spg.NewWLRecipe(t.int(), wl)
		t.sepArg(r)
		r.Capitalize = spg.CapScheme(t.str())
		t.budget()
		src := t.source()
		install(cloneSource(src))
		p, err := r.Generate()
		return held(pre+showPassword(p, err), p, src, func() { _, _ = r.Generate() })
	}
	// wlentropy <words> <length> <sep> <cap> <reps>: Entropy() of reps fresh constructions from shuffled input, 3 calls each
	families["wlentropy"] = func(t *toks) string {
		list, _ := t.wordsArg()
		length := t.int()
		proto := &spg.WLRecipe{}
		t.sepArg(proto)
		cap := spg.CapScheme(t.str())
		reps := t.int()
		seen := map[string]int{}
		size := -1
		for rep := 0; rep < reps; rep++ {
			l2 := append([]string(nil), list...)
			// deterministic shuffles and repetitions of the same input words
			for i := range l2 {
				j := (i*7 + rep*13 + 3) % len(l2)
				l2[i], l2[j] = l2[j], l2[i]
			}
			if rep%3 == 1 {
				l2 = append(l2, l2[:len(l2)/2+1]...)
			}
			wl, err := spg.NewWordList(l2)
			if err != nil {
				return "err " + errKind(err)
			}
			size = int(wl.Size())
			r := spg.NewWLRecipe(length, wl)
			r.SeparatorChar = proto.SeparatorChar
			r.SeparatorFunc = proto.SeparatorFunc
			r.Capitalize = cap
			for c := 0; c < 3; c++ {
				seen[f32(r.Entropy())]++
			}
		}
		drain(capOut)
		drain(capErr)
		parts := []string{}
		for k, v := range seen {
			parts = append(parts, fmt.Sprintf("%s*%d", k, v))
		}
		if len(parts) > 1 {
			// canonical order for printing
			if parts[0] > parts[1] {
				parts[0], parts[1] = parts[1], parts[0]
			}
		}
		return fmt.Sprintf("size=%d distinct=%d values=%s titles=%s", size, len(seen), strings.Join(parts, ","), titleGraph(list))
	}
}
