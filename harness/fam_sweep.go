package main

import (
	"crypto/rand"
	"encoding/binary"
	"fmt"
	"os"

	"go.1password.io/spg"
)

// sweepReader feeds one chosen raw word, then (if the draw asks again, i.e. the
// word was rejected) an endless supply of zero words, and counts the reads.
type sweepReader struct {
	v     uint32
	reads int
}

func (s *sweepReader) Read(p []byte) (int, error) {
	if len(p) != 4 {
		panic("harness: sweep expects 4-byte reads")
	}
	if s.reads == 0 {
		binary.BigEndian.PutUint32(p, s.v)
	} else {
		p[0], p[1], p[2], p[3] = 0, 0, 0, 0
	}
	s.reads++
	return 4, nil
}

func init() {
	// sweep <n> <lo> <hi> <outfile-hex>: run the real bounded draw on every raw word in [lo,hi).
	// Writes n+2 little-endian uint64: per-index counts, #rejected, #out-of-range.
	families["sweep"] = func(t *toks) string {
		n := uint32(t.u64())
		lo := t.u64()
		hi := t.u64()
		path := t.str()
		counts := make([]uint64, uint64(n)+2)
		r := &sweepReader{}
		rand.Reader = r
		for v := lo; v < hi; v++ {
			r.v = uint32(v)
			r.reads = 0
			i := spg.VerifDraw(n)
			if r.reads > 1 {
				counts[n]++
			} else if i >= n {
				counts[uint64(n)+1]++
			} else {
				counts[i]++
			}
		}
		buf := make([]byte, 8*len(counts))
		for i, c := range counts {
			binary.LittleEndian.PutUint64(buf[8*i:], c)
		}
		if err := os.WriteFile(path, buf, 0o644); err != nil {
			panic("harness: " + err.Error())
		}
		return fmt.Sprintf("ok swept=%d", hi-lo)
	}
}

func init() {
	// sweep2 <n> <lo> <hi> <i1> <i2>: the real bounded draw on every raw word in [lo,hi), tallying only two alternatives
	// (for bounds too large for a counter per alternative)  ->  ok c1=<n> c2=<n> rejected=<n> oor=<n>
	families["sweep2"] = func(t *toks) string {
		n := uint32(t.u64())
		lo := t.u64()
		hi := t.u64()
		i1 := uint32(t.u64())
		i2 := uint32(t.u64())
		var c1, c2, rej, oor uint64
		r := &sweepReader{}
		rand.Reader = r
		for v := lo; v < hi; v++ {
			r.v = uint32(v)
			r.reads = 0
			i := spg.VerifDraw(n)
			switch {
			case r.reads > 1:
				rej++
			case i >= n:
				oor++
			case i == i1:
				c1++
			case i == i2:
				c2++
			}
		}
		return fmt.Sprintf("ok c1=%d c2=%d rejected=%d oor=%d", c1, c2, rej, oor)
	}
}
