package main

import (
	"fmt"
	"math"
	"strings"

	"go.1password.io/spg"
)

// roundTrip encodes the tokens, decodes them again and reports kind, index and whether
// values, types and entropy came back exactly.
func roundTrip(ts spg.Tokens, pw string, ent float32) string {
	kind := ts.Kind()
	idx, err := ts.MakeIndices()
	if err != nil {
		return fmt.Sprintf("kind=%d idx=err:%s rt=none", kind, errKind(err))
	}
	if idx == nil {
		return fmt.Sprintf("kind=%d idx=nil rt=none", kind)
	}
	p2, err := spg.Tokenize(pw, idx, ent)
	if err != nil {
		return fmt.Sprintf("kind=%d idx=%s rt=err:%s", kind, hx(idx), errKind(err))
	}
	t2 := p2.Tokens()
	ok := len(t2) == len(ts) && math.Float32bits(p2.Entropy) == math.Float32bits(ent)
	if ok {
		for i := range ts {
			if ts[i].Value() != t2[i].Value() || ts[i].Type() != t2[i].Type() {
				ok = false
			}
		}
	}
	if ok {
		return fmt.Sprintf("kind=%d idx=%s rt=ok", kind, hx(idx))
	}
	return fmt.Sprintf("kind=%d idx=%s rt=lossy:%s", kind, hx(idx), showTokensCompact(t2))
}

func showTokensCompact(ts spg.Tokens) string {
	s := ""
	for i, tk := range ts {
		if i > 0 {
			s += ","
		}
		s += fmt.Sprintf("%s:%d", hxs(tk.Value()), tk.Type())
	}
	return s
}

// The entropy handed to Tokenize is an opaque float32 that must come back bit for bit, whatever it is:
// the value varies with the case (zero, negative, infinite, NaN and denormal included).
var entChoices = []float32{3.25, 0, -2.5, float32(math.Inf(1)), 41.5, float32(math.NaN()), 1e-45, float32(math.Inf(-1)), 118.61}

func entFor(n int) float32 { return entChoices[n%len(entChoices)] }

func init() {
	// token <k> (<value> <type>)*  ->  kind, index, round trip
	families["token"] = func(t *toks) string {
		k := t.int()
		vals := make([]string, k)
		types := make([]byte, k)
		for i := 0; i < k; i++ {
			vals[i] = t.str()
			types[i] = byte(t.int())
		}
		ts := spg.VerifTokens(vals, types)
		pw := ""
		for _, v := range vals {
			pw += v
		}
		return roundTrip(ts, pw, entFor(len(pw)+k))
	}
	// tokenize <pw> <index>  ->  ok tokens / err kind; entok=1 iff the entropy passed in came back
	families["tokenize"] = func(t *toks) string {
		pw := t.str()
		idx := t.bytes()
		ent := entFor(len(pw) + len(idx))
		if len(idx) == 0 {
			// the empty index in both of its Go forms: nil and empty-but-allocated
			_, e1 := spg.Tokenize(pw, nil, ent)
			_, e2 := spg.Tokenize(pw, spg.Indices{}, ent)
			_, e3 := spg.Tokenize(pw, make(spg.Indices, 0, 4), ent)
			if e1 == nil || e2 == nil || e3 == nil {
				return "ok 0 EMPTY-INDEX-ACCEPTED entok=1"
			}
			return "err " + errKind(e1)
		}
		p, err := spg.Tokenize(pw, spg.Indices(idx), ent)
		if err != nil {
			return "err " + errKind(err)
		}
		entok := 0
		if math.Float32bits(p.Entropy) == math.Float32bits(ent) {
			entok = 1
		}
		res := fmt.Sprintf("ok %s entok=%d", showTokens(p.Tokens()), entok)
		// the result is the caller's own: later decodings (other text of the same shape, same and other indices)
		// must not change it
		before := showTokens(p.Tokens()) + "|" + p.String()
		func() {
			defer func() { _ = recover() }()
			alt := strings.Map(func(rune) rune { return '#' }, pw)
			_, _ = spg.Tokenize(alt, spg.Indices(idx), ent)
			_, _ = spg.Tokenize(alt+alt, spg.Indices{0}, ent)
			_, _ = spg.Tokenize(alt, spg.Indices{1, 1}, ent)
		}()
		if showTokens(p.Tokens())+"|"+p.String() != before {
			res += " RETURNED-PASSWORD-CHANGED-BY-A-LATER-CALL"
		}
		return res
	}
}
