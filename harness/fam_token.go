package main

import (
	"fmt"
	"math"

	"go.1password.io/spg"
)

// roundTrip encodes the tokens, decodes them again and reports kind, index and whether
// values, types and entropy came back exactly.
func roundTrip(ts spg.Tokens, pw string, ent float32) string {
	kind := ts.Kind()
	idx, err := ts.MakeIndices()
	if err != nil {
		return fmt.Sprintf("kind=%d idx=err:%s rt=none", kind, errKind(err))
	}
	if idx == nil {
		return fmt.Sprintf("kind=%d idx=nil rt=none", kind)
	}
	p2, err := spg.Tokenize(pw, idx, ent)
	if err != nil {
		return fmt.Sprintf("kind=%d idx=%s rt=err:%s", kind, hx(idx), errKind(err))
	}
	t2 := p2.Tokens()
	ok := len(t2) == len(ts) && math.Float32bits(p2.Entropy) == math.Float32bits(ent)
	if ok {
		for i := range ts {
			if ts[i].Value() != t2[i].Value() || ts[i].Type() != t2[i].Type() {
				ok = false
			}
		}
	}
	if ok {
		return fmt.Sprintf("kind=%d idx=%s rt=ok", kind, hx(idx))
	}
	return fmt.Sprintf("kind=%d idx=%s rt=lossy:%s", kind, hx(idx), showTokensCompact(t2))
}

func showTokensCompact(ts spg.Tokens) string {
	s := ""
	for i, tk := range ts {
		if i > 0 {
			s += ","
		}
		s += fmt.Sprintf("%s:%d", hxs(tk.Value()), tk.Type())
	}
	return s
}

func init() {
	// token <k> (<value> <type>)*  ->  kind, index, round trip
	families["token"] = func(t *toks) string {
		k := t.int()
		vals := make([]string, k)
		types := make([]byte, k)
		for i := 0; i < k; i++ {
			vals[i] = t.str()
			types[i] = byte(t.int())
		}
		ts := spg.VerifTokens(vals, types)
		pw := ""
		for _, v := range vals {
			pw += v
		}
		return roundTrip(ts, pw, 3.25)
	}
	// tokenize <pw> <index>  ->  ok tokens / err kind; entok=1 iff the entropy passed in came back
	families["tokenize"] = func(t *toks) string {
		pw := t.str()
		idx := t.bytes()
		const ent = float32(41.5)
		p, err := spg.Tokenize(pw, spg.Indices(idx), ent)
		if err != nil {
			return "err " + errKind(err)
		}
		entok := 0
		if math.Float32bits(p.Entropy) == math.Float32bits(ent) {
			entok = 1
		}
		return fmt.Sprintf("ok %s entok=%d", showTokens(p.Tokens()), entok)
	}
}
