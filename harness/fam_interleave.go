package main

import (
	"crypto/rand"
	"fmt"
	"sync"

	"go.1password.io/spg"
)

// gated serves generation A from tape a; A's k-th Read is parked AFTER its bytes were delivered, generation B then runs
// to completion on tape b in another goroutine, and A resumes.  A deterministic interleaving of two generations.
type gated struct {
	mu       sync.Mutex
	a, b     *scripted
	phase    int
	k, reads int
	entered  chan struct{}
	release  chan struct{}
}

func (g *gated) Read(p []byte) (int, error) {
	g.mu.Lock()
	switch g.phase {
	case 0:
		n, err := g.a.Read(p)
		g.reads++
		if g.reads == g.k {
			g.phase = 1
			g.mu.Unlock()
			g.entered <- struct{}{}
			<-g.release
			return n, err
		}
		g.mu.Unlock()
		return n, err
	case 1:
		n, err := g.b.Read(p)
		g.mu.Unlock()
		return n, err
	default:
		n, err := g.a.Read(p)
		g.mu.Unlock()
		return n, err
	}
}

func brief(p *spg.Password, err error, panicked interface{}) string {
	if panicked != nil {
		return classify(panicked)
	}
	if err != nil {
		return "err:" + errKind(err)
	}
	if p == nil {
		return "nil"
	}
	return "ok:" + hxs(p.String())
}

func genBrief(r spg.CharRecipe) (res string) {
	defer func() {
		if x := recover(); x != nil {
			res = brief(nil, nil, x)
		}
	}()
	p, err := r.Generate()
	return brief(p, err, nil)
}

func init() {
	// interleave <recipeA> <recipeB> <budget> <k> <sourceA> <sourceB>
	//   -> seqA=.. seqB=.. ilA=.. ilB=..   (sequential results on each tape; results when B runs inside A's k-th read)
	families["interleave"] = func(t *toks) string {
		ra := t.recipe()
		rb := t.recipe()
		t.budget()
		k := t.int()
		srcA := t.source()
		srcB := t.source()
		install(cloneSource(srcA))
		seqA := genBrief(ra)
		install(cloneSource(srcB))
		seqB := genBrief(rb)
		g := &gated{a: &scripted{chunks: cloneSource(srcA)}, b: &scripted{chunks: cloneSource(srcB)}, k: k,
			entered: make(chan struct{}), release: make(chan struct{})}
		tape = nil
		rand.Reader = g
		var ilA, ilB string
		done := make(chan struct{})
		go func() {
			ilA = genBrief(ra)
			close(done)
		}()
		select {
		case <-g.entered:
			ilB = genBrief(rb)
			g.mu.Lock()
			g.phase = 2
			g.mu.Unlock()
			g.release <- struct{}{}
			<-done
		case <-done:
			// A needed fewer than k reads: B simply runs afterwards
			g.mu.Lock()
			g.phase = 1
			g.mu.Unlock()
			ilB = genBrief(rb)
		}
		panicMessage = ""
		return fmt.Sprintf("seqA=%s seqB=%s ilA=%s ilB=%s", seqA, seqB, ilA, ilB)
	}
}
