package main

import (
	"fmt"
	"reflect"
	"strings"

	"go.1password.io/spg"
)

type hobj struct {
	char *spg.CharRecipe
	wl   *spg.WLRecipe
	list []string // the slice the caller passed to NewWordList
	orig []string
	ctor spg.SFFunction // what the constructor left in SeparatorFunc (nil on the pinned tree): a caller who only sets SeparatorChar keeps it
}

func snapshot(o *hobj) string {
	if o.char != nil {
		r := o.char
		return fmt.Sprintf("%d|%d|%d|%d|%q|%q|%q", r.Length, r.Allow, r.Require, r.Exclude, r.AllowChars, r.RequireSets, r.ExcludeChars)
	}
	w := o.wl
	sf := "nil"
	if w.SeparatorFunc != nil {
		sf = fmt.Sprintf("%v", reflect.ValueOf(w.SeparatorFunc).Pointer())
	}
	return fmt.Sprintf("%d|%q|%s|%q|%d|%q", w.Length, w.SeparatorChar, sf, w.Capitalize, w.Size(), o.list)
}

func init() {
	hist := func(t *toks) string {
		spg.MaxTrials = 200
		spg.MaxFailRate = 1.0 / 1000000000
		t.next() // title graph: used by the model only
		nobj := t.int()
		objs := make([]*hobj, nobj)
		for i := range objs {
			switch k := t.next(); k {
			case "char":
				r := t.recipe()
				if i%2 == 1 {
					// every other character recipe starts life in the constructor and gets its fields assigned one by
					// one afterwards, as the README does; whatever the constructor put into the value stays in it
					c := spg.NewCharRecipe(r.Length)
					c.Length, c.Allow, c.Require, c.Exclude = r.Length, r.Allow, r.Require, r.Exclude
					c.AllowChars, c.RequireSets, c.ExcludeChars = r.AllowChars, r.RequireSets, r.ExcludeChars
					objs[i] = &hobj{char: c}
				} else {
					objs[i] = &hobj{char: &r}
				}
			case "wl":
				list, _ := t.wordsArg()
				o := &hobj{list: list, orig: append([]string(nil), list...)}
				wl, err := spg.NewWordList(list)
				if err != nil {
					panic("harness: history list: " + err.Error())
				}
				drain(capOut)
				drain(capErr)
				o.wl = spg.NewWLRecipe(t.int(), wl)
				if i%2 == 0 {
					// every other wordlist recipe is a COPY of what the constructor returned (`variant := *template`), the
					// template itself being changed afterwards: a recipe is a value, its copy owes nothing to the original
					template := o.wl
					cp := *template
					o.wl = &cp
					template.SeparatorChar, template.Length, template.Capitalize = "#template#", 1, spg.CSAll
				}
				o.ctor = o.wl.SeparatorFunc
				t.sepArg(o.wl)
				o.wl.Capitalize = spg.CapScheme(t.str())
				objs[i] = o
			default:
				panic("harness: bad object kind " + k)
			}
		}
		nops := t.int()
		out := []string{}
		var keptPw []*spg.Password
		var keptSnap []string
		pwSnap := func(p *spg.Password) string { return showTokens(p.Tokens()) + "|" + p.String() + "|" + f32(p.Entropy) }
		for j := 0; j < nops; j++ {
			opk := t.next()
			h := t.int()
			o := objs[h]
			switch opk {
			case "setc":
				r := t.recipe()
				o.char.Length, o.char.Allow, o.char.Require, o.char.Exclude = r.Length, r.Allow, r.Require, r.Exclude
				o.char.AllowChars, o.char.RequireSets, o.char.ExcludeChars = r.AllowChars, r.RequireSets, r.ExcludeChars
				out = append(out, "-")
				continue
			case "mutreq":
				i := t.int()
				v := t.str()
				if i < len(o.char.RequireSets) {
					o.char.RequireSets[i] = v // in place: the library saw this backing array in earlier calls
				}
				out = append(out, "-")
				continue
			case "setw":
				o.wl.Length = t.int()
				o.wl.SeparatorChar = ""
				o.wl.SeparatorFunc = o.ctor
				t.sepArg(o.wl)
				o.wl.Capitalize = spg.CapScheme(t.str())
				out = append(out, "-")
				continue
			}
			before := make([]string, len(objs))
			for i, x := range objs {
				before[i] = snapshot(x)
			}
			var res string
			src := []chunk(nil)
			if opk == "gen" || opk == "ent" {
				src = t.source()
			}
			res = run(func() string {
				switch opk {
				case "gen":
					install(src)
					var p *spg.Password
					var err error
					if o.char != nil {
						p, err = o.char.Generate()
					} else {
						p, err = o.wl.Generate()
					}
					shown := showPassword(p, err)
					if p != nil && err == nil {
						// the caller keeps what it was given: a result is its own, whatever is called later
						keptPw = append(keptPw, p)
						keptSnap = append(keptSnap, pwSnap(p))
					}
					return shown
				case "ent":
					install(src)
					if o.char != nil {
						return "ent=" + f32(o.char.Entropy())
					}
					return fmt.Sprintf("ent=%s consumed=%d", f32(o.wl.Entropy()), consumed())
				case "alpha":
					return "alphabet=" + hxs(o.char.Alphabet())
				case "sp":
					return "sp=" + f32(o.char.SuccessProbability())
				}
				panic("harness: bad op " + opk)
			})
			snap := "ok"
			for i, p := range keptPw {
				if pwSnap(p) != keptSnap[i] {
					snap = fmt.Sprintf("CHANGED:result-of-an-earlier-call-%d", i)
					keptSnap[i] = pwSnap(p)
				}
			}
			for i, x := range objs {
				if snapshot(x) != before[i] {
					snap = fmt.Sprintf("CHANGED:obj%d", i)
				}
				if x.wl != nil && !reflect.DeepEqual(x.list, x.orig) {
					snap = fmt.Sprintf("CHANGED:list%d", i)
				}
			}
			out = append(out, res+" snap="+snap)
		}
		return strings.Join(out, " | ")
	}
	families["history"] = hist
	families["historyo"] = hist
}
