package main

import (
	"fmt"
	"math"
	"strings"

	"go.1password.io/spg"
)

func (t *toks) recipe() spg.CharRecipe {
	r := spg.CharRecipe{}
	r.Length = t.int()
	r.Allow = spg.CTFlag(t.u64())
	r.Require = spg.CTFlag(t.u64())
	r.Exclude = spg.CTFlag(t.u64())
	r.AllowChars = t.str()
	r.RequireSets = guarded(t.strs())
	r.ExcludeChars = t.str()
	return r
}

// guarded returns the slice as a prefix of a longer backing array, the way a caller slicing a table of sets would
// pass it: the two elements beyond its length belong to the caller, and guardsIntact checks after every case
// that nobody wrote to them.
const sentinel = "\x00caller-owned element beyond len"

var guards [][]string

func guarded(sets []string) []string {
	if sets == nil {
		return nil
	}
	full := make([]string, len(sets), len(sets)+2)
	copy(full, sets)
	full = append(full, sentinel, sentinel)
	guards = append(guards, full)
	return full[:len(sets):len(full)]
}

func guardsIntact() bool {
	ok := true
	for _, g := range guards {
		if g[len(g)-1] != sentinel || g[len(g)-2] != sentinel {
			ok = false
		}
	}
	guards = guards[:0]
	return ok
}

func (t *toks) budget() {
	spg.MaxTrials = t.int()
	fn := t.int()
	fd := t.int()
	spg.MaxFailRate = float64(fn) / float64(fd)
}

func errKind(err error) string {
	m := err.Error()
	switch {
	case strings.HasPrefix(m, "don't ask for passwords of length"):
		return "badlength"
	case strings.HasPrefix(m, "no characters to build pwd from"):
		return "nochars"
	case strings.HasPrefix(m, "Chance of not generated a valid password"):
		return "failrate"
	case strings.HasPrefix(m, "couldn't generate password complying with requirements"):
		return "exhausted"
	case strings.HasPrefix(m, "wordlist generator must be set up"):
		return "nolist"
	case strings.HasPrefix(m, "cannot set up word list generator without words"):
		return "emptylist"
	case strings.HasPrefix(m, "tokenization must begin with a TI Kind byte"):
		return "emptyindex"
	case strings.HasPrefix(m, "password too short for indices"):
		return "tooshort"
	case strings.HasPrefix(m, "full token index must be"):
		return "badfull"
	case strings.HasPrefix(m, "Unknown TIIndex kind"):
		return "unknownkind"
	case strings.HasPrefix(m, "token too large"):
		return "toolarge"
	}
	return "other:" + hxs(m)
}

func showTokens(ts spg.Tokens) string {
	var sb strings.Builder
	fmt.Fprintf(&sb, "%d", len(ts))
	for _, tk := range ts {
		fmt.Fprintf(&sb, " %s:%d", hxs(tk.Value()), tk.Type())
	}
	return sb.String()
}

func f32(x float32) string { return fmt.Sprintf("F:%08x", math.Float32bits(x)) }

func consumed() int {
	if tape == nil {
		return 0
	}
	return tape.consumed
}

// showPassword prints everything observable about a (password, error) pair.
func showPassword(p *spg.Password, err error) string {
	if err != nil {
		s := "err " + errKind(err)
		if p != nil {
			s += " PASSWORD-WITH-ERROR"
		}
		return fmt.Sprintf("%s consumed=%d", s, consumed())
	}
	if p == nil {
		return fmt.Sprintf("NIL-PASSWORD-WITHOUT-ERROR consumed=%d", consumed())
	}
	ts := p.Tokens()
	c := consumed() // before the round trip, which draws nothing but keep it obvious
	return fmt.Sprintf("ok %s str=%s atoms=%s seps=%s ent=%s consumed=%d %s", showTokens(ts), hxs(p.String()),
		hxs(strings.Join(ts.Atoms(), "\x00")), hxs(strings.Join(ts.Separators(), "\x00")), f32(p.Entropy), c,
		roundTrip(ts, p.String(), p.Entropy))
}

func cloneSource(src []chunk) []chunk {
	out := make([]chunk, len(src))
	for i, c := range src {
		out[i] = chunk{bs: append([]byte(nil), c.bs...), fail: c.fail}
	}
	return out
}

// held re-examines a password that was returned earlier after a LATER generation by the same recipe (same tape):
// a returned Password is the caller's; nothing the library does afterwards may change it.
func held(res string, p *spg.Password, src []chunk, again func()) string {
	if p == nil {
		return res
	}
	snap := func() string { ts := p.Tokens(); return showTokens(ts) + "|" + p.String() + "|" + f32(p.Entropy) }
	before := snap()
	so, se := drain(capOut), drain(capErr)
	saved := tape
	func() {
		defer func() { _ = recover() }()
		// a DIFFERENT stream for the later call (same chunking), so that it produces a different password
		other := cloneSource(src)
		for i := range other {
			for j := range other[i].bs {
				other[i].bs[j] ^= byte(0x5a + 7*j)
			}
		}
		install(other)
		again()
	}()
	tape = saved
	drain(capOut)
	drain(capErr)
	_, _ = capOut.Write(so)
	_, _ = capErr.Write(se)
	if snap() != before {
		return res + " RETURNED-PASSWORD-CHANGED-BY-A-LATER-CALL"
	}
	return res
}

func init() {
	// chargen <recipe> <MaxTrials> <fn> <fd> <source>
	families["chargen"] = func(t *toks) string {
		r := t.recipe()
		t.budget()
		src := t.source()
		install(cloneSource(src))
		p, err := r.Generate()
		return held(showPassword(p, err), p, src, func() { _, _ = r.Generate() })
	}
	// recipe <recipe>: the deterministic observables of a character recipe
	families["recipe"] = func(t *toks) string {
		r := t.recipe()
		a := r.Alphabet()
		c := r.VerifCount()
		e1 := r.Entropy()
		e2 := r.Entropy()
		sp := r.SuccessProbability()
		same := 1
		if math.Float32bits(e1) != math.Float32bits(e2) {
			same = 0
		}
		// the same fields on an object that started life in the constructor, was asked once with OTHER required sets of the same
		// number, and then had their contents replaced in place: the answer is the one for the fields as they are now
		if len(r.RequireSets) > 0 {
			so, se := drain(capOut), drain(capErr) // what the calls above printed is the case's output; the calls below print again
			defer func() {
				drain(capOut)
				drain(capErr)
				_, _ = capOut.Write(so)
				_, _ = capErr.Write(se)
			}()
			// one object per method (a call of one method may well go through another internally)
			for which := 0; which < 3; which++ {
				obj := spg.NewCharRecipe(r.Length)
				obj.Allow, obj.Require, obj.Exclude, obj.AllowChars, obj.ExcludeChars = r.Allow, r.Require, r.Exclude, r.AllowChars, r.ExcludeChars
				obj.RequireSets = make([]string, len(r.RequireSets))
				for i := range obj.RequireSets {
					obj.RequireSets[i] = "~"
				}
				switch which {
				case 0:
					_ = obj.Entropy()
					copy(obj.RequireSets, r.RequireSets)
					if math.Float32bits(obj.Entropy()) != math.Float32bits(e1) {
						same = 0
					}
				case 1:
					_ = obj.SuccessProbability()
					copy(obj.RequireSets, r.RequireSets)
					if math.Float32bits(obj.SuccessProbability()) != math.Float32bits(sp) {
						same = 0
					}
				case 2:
					_ = obj.Alphabet()
					copy(obj.RequireSets, r.RequireSets)
					if obj.Alphabet() != a {
						same = 0
					}
				}
			}
		}
		return fmt.Sprintf("alphabet=%s count=%s ent=%s sp=%s stable=%d", hxs(a), c.Text(16), f32(e1), f32(sp), same)
	}
}
