package main

import (
	"fmt"

	"go.1password.io/spg"
)

func init() {
	// draw <n> <source>  ->  ok <index> consumed=<bytes>
	families["draw"] = func(t *toks) string {
		n := uint32(t.u64())
		install(t.source())
		i := spg.VerifDraw(n)
		return fmt.Sprintf("ok %d consumed=%d", i, tape.consumed)
	}
}
