#!/usr/bin/env python3
"""Orchestrator for the spg verification (see DESIGN.md §5).

  python3 verif.py setup
  python3 verif.py check C01 [--tier quick|thorough]
  python3 verif.py replay <replay.json>

Exit 0: the property is shown for /repo's current working tree.
Exit 1: prints `VIOLATION property=<id> replay=<path> [no-failing-input-found]`.
"""
import sys, os, json, time, argparse, importlib

HERE = os.path.dirname(os.path.abspath(__file__))
sys.path.insert(0, HERE)

from vlib import core  # noqa: E402


def main():
    ap = argparse.ArgumentParser()
    sub = ap.add_subparsers(dest="cmd", required=True)
    sub.add_parser("setup")
    c = sub.add_parser("check")
    c.add_argument("prop")
    c.add_argument("--tier", default=os.environ.get("VERIF_TIER", "quick"), choices=["quick", "thorough"])
    r = sub.add_parser("replay")
    r.add_argument("path")
    args = ap.parse_args()

    if args.cmd == "setup":
        ok = core.build_all(verbose=True, force=True)
        sys.exit(0 if ok.ok else 2)
    if args.cmd == "check":
        seed = int(os.environ.get("VERIF_SEED", "20260926"))
        mod = importlib.import_module("vlib.props." + args.prop.lower())
        rc = core.run_check(args.prop, mod, args.tier, seed)
        sys.exit(rc)
    if args.cmd == "replay":
        rc = core.replay(args.path)
        sys.exit(rc)


if __name__ == "__main__":
    main()
